"""C12 - pipelining: in-order execution, one response per loud request, quit rules.

The real `Client::handle` coroutine (read_frame -> decode -> handle_request -> write -> shutdown loop) is executed over the
socket model on pipelines of m requests drawn from a menu of loud, quiet and unimplemented opcodes, with quit / quitq at any
position, on a fresh server, and with every read size symbolic (the stream arrives in one or many segments).
Asserted per path: handle_request is called for exactly the requests before the quit, each once, in order (quitq is not
executed); the bytes written are, in request order, exactly one response (same opcode and opaque) per loud request and at most
one per quiet request; quit is answered and the socket shut down; quitq shuts it down unanswered; nothing after either is
executed or answered; the task always returns (EOF, silence -> idle timeout).
"""
import z3, struct
from .common import *
from .wire import *
from .world import St
from . import sock_common as SC
from . import handler_common as HC
from .sock_common import limit
from mirse.models.bytesm import WIRE

# (name, opcode, key?, extras length, value length, quiet?)
MENU = [('get', 0x00, 1, 0, 0, False), ('getq', 0x09, 1, 0, 0, True), ('set', 0x01, 1, 8, 1, False), ('setq', 0x11, 1, 8, 1, True),
        ('noop', 0x0a, 0, 0, 0, False), ('touch', 0x1c, 1, 4, 0, False), ('quit', 0x07, 0, 0, 0, False), ('quitq', 0x17, 0, 0, 0, True),
        ('delete', 0x04, 1, 0, 0, False), ('incr', 0x05, 1, 20, 0, False), ('gatq', 0x1e, 1, 4, 0, True), ('version', 0x0b, 0, 0, 0, False),
        ('deleteq', 0x14, 1, 0, 0, True), ('flush', 0x08, 0, 0, 0, False), ('add', 0x02, 1, 8, 1, False), ('appendq', 0x19, 1, 0, 1, True),
        ('bigset', 0x01, 1, 8, 1016, False)]     # body 1025: oversized when the item limit is 1024


def frame_len(e):
    return 24 + e[2] + e[3] + e[4]


def lay_out(E, ops, magic=None):
    """assume the wire holds the chosen frames back to back; returns [(offset, menu entry, opaque)]
    magic: {frame index: BV8 term} replaces the magic byte of that frame"""
    off = 0
    out = []
    for i, k in enumerate(ops):
        e = MENU[k]
        hdr = struct.pack('>BBHBBHIIQ', 0x80, e[1], e[2], e[3], 0, 0, e[2] + e[3] + e[4], 0x100 + i, 0)
        for j, b in enumerate(hdr):
            if j == 0 and magic and i in magic:
                E.assume(z3.Select(WIRE, BV(off)) == magic[i])
                continue
            E.assume(z3.Select(WIRE, BV(off + j)) == b)
            E.known_bytes[off + j] = b
        if e[2]:
            E.assume(z3.Select(WIRE, BV(off + 24 + e[3])) == ord('k'))
        out.append((off, e, 0x100 + i))
        off += frame_len(e)
    return out, off


def expectations(frames):
    """from the request list alone: who must / may answer, who is executed"""
    must, may, executed = [], [], []
    closed = False
    for off, e, opq in frames:
        if e[0] == 'quitq':
            closed = True
            break
        executed.append((e[1], opq))
        if e[5]:
            may.append((e[1], opq))
        else:
            must.append((e[1], opq))
        if e[0] == 'quit':
            closed = True
            break
    return must, may, executed, closed


def check_path(ck, E, p, frames, total, end, names):
    x = p.out
    # opcodes and opaques are fixed by the path condition (the frames are laid out concretely): read them off any model
    mdl = ck.solve(p.pc)
    if mdl is None or mdl == 'unknown':
        return ['path condition has no model'], [], []
    must, may, executed, closes = expectations(frames)
    # responses written, parsed from the ropes
    wrote = []
    for d in x.out:
        r = HC.RespView(E, d)
        if not r.ok:
            wrote.append(None)
            continue
        if any(q[0] == 'cut' for q in r.payload) or any(q[0] == 'cut' for q in HC.parts_of(d)):
            wrote.append(None)      # a response of which only a prefix was written
            continue
        wrote.append((mval(mdl, r.opcode), mval(mdl, r.opaque)))
    handled = []
    for ev in x.handled:
        h = ev[2].fields[0].fields[0]     # request.header
        handled.append((mval(mdl, h.fields[1]), mval(mdl, h.fields[7])))
    allowed = must + may
    problems = []
    if None in wrote:
        problems.append('a written response is not a well-formed frame')
    seq = [w for w in wrote if w is not None]
    # in request order, loud ones all present, nothing foreign, nothing twice
    order = [a for a in executed if a in seq]
    if seq != order:
        problems.append(f'responses {seq} are not the in-order answers of the requests {executed}')
    for a in must:
        if seq.count(a) != 1:
            problems.append(f'loud request {a} answered {seq.count(a)} times')
    if handled != executed:
        problems.append(f'executed {handled}, expected exactly {executed}')
    if closes and not x.closed:
        problems.append('socket not shut down after quit/quitq')
    if x.state != 'ready':
        problems.append('the connection task does not return (blocked for ever)')
    return problems, seq, handled


def scen_for(m, frames, total, nreads, end):
    data = wire_bytes(m, total)
    cuts, pos = [], 0
    for i in range(nreads):
        k = mval(m, z3.BitVec('n' if i == 0 else f'n!{i}', 64))
        if k:
            cuts.append(data[pos:pos + k])
            pos += k
    if pos < total:
        cuts.append(data[pos:])
    return {'kind': 'socket', 'item_limit': mval(m, limit), 'timeout_secs': 1,
            'conns': [{'chunks': [c.hex() for c in cuts if c], 'pause_ms': 60, 'read_ms': 1500 if end == 'silent' else 500,
                       'end': 'shutdown_write' if end == 'eof' else 'hold'}]}


def native_seq(out):
    got = bytes.fromhex(out['conns'][0]['received'])
    seq = []
    while len(got) >= 24:
        r = parse_response(got)
        if r is None or len(got) < 24 + r['body'] or r['magic'] != 0x81:
            seq.append(None)
            break
        seq.append((r['opcode'], r['opaque']))
        got = got[24 + r['body']:]
    return seq, out['conns'][0]['closed_by_server']


def native_short_write(ck, problems):
    """a response is only partly written when the socket's send buffer is full: 16 pipelined gets of a 1 MiB value to a client
    that does not read for a while; every response must still arrive whole and in order"""
    key = b'big'
    val = bytes(range(256)) * 4000      # 1 024 000 bytes
    setf = frame(0x01, key, b'\0' * 8, val, opaque=1)
    gets = b''.join(frame(0x00, key, opaque=100 + i) for i in range(16)) + frame(0x0a, opaque=999)
    sc = {'kind': 'socket', 'item_limit': 1 << 21, 'timeout_secs': 5,
          'conns': [{'chunks': [setf.hex(), gets.hex()], 'pause_ms': 700, 'read_ms': 4000, 'end': 'hold'}]}
    out = ck.replay([sc])[0]
    got = bytes.fromhex(out['conns'][0]['received'])
    ok_ = True
    pos = 0
    seen = []
    while pos + 24 <= len(got):
        r = parse_response(got[pos:pos + 24] + b'')
        if r is None or r['magic'] != 0x81:
            ok_ = False
            break
        body = got[pos + 24:pos + 24 + r['body']]
        if len(body) < r['body']:
            ok_ = False
            break
        if r['opcode'] == 0x00 and r['status'] == 0 and body[4:] != val:
            ok_ = False
            break
        seen.append((r['opcode'], r['opaque']))
        pos += 24 + r['body']
    want = [(1, 1)] + [(0, 100 + i) for i in range(16)] + [(0x0a, 999)]
    ok_ = ok_ and seen == want
    desc = f"{'; '.join(problems)} | native: set of a 1 MiB value, then 16 pipelined gets + noop to a client that reads late: " \
           f"{len(seen)} well-formed responses in order out of 18" + ('' if ok_ else ' - the response stream is corrupted (a response was cut short)')
    return (None if ok_ else True), desc, sc


def explore_first(ck, first, m, menu_n, tier, end, menu=None, reads=None):
    E = ck.E
    st = St(1)
    names = {v: k for k, v in E.enums['BinaryRequest']}
    R = reads if reads is not None else (m + 1 if tier == 'quick' else m + 2)
    menu = list(menu) if menu is not None else list(range(menu_n))

    def h(E):
        ops = [first] + [menu[E.choose(len(menu), 'op')] for _ in range(m - 1)]
        # nothing is sent after a quit: shorten the pipeline there is not needed - requests behind a quit must be ignored
        frames, total = lay_out(E, ops)
        E.assume(z3.UGE(limit, 1024), z3.ULE(limit, 1 << 20))
        E.assume(z3.Not(st.present[0]), st.cas_id == 1, st.now == 0)
        for c in st.wellformed():
            E.assume(c)
        s = SC.Stream(0)
        s.total = BV(total)
        x = SC.run_client(E, st, s, end=end, max_reads=R)
        x.frames = frames
        x.total = total
        x.nreads = sum(1 for e in E.events if e[0] == 'read' and not isinstance(e[1], str))
        x.events = list(E.events)
        return x
    res = ck.explore(h)
    nval = 0
    for p in res:
        if p.status == 'panic':
            ck.obligation('no panic on a pipeline of valid requests', p.pc, z3.BoolVal(False), {}, None, [])
            continue
        if p.status != 'ok':
            continue
        x = p.out
        problems, seq, handled = check_path(ck, E, p, x.frames, x.total, end, names)
        opsn = [f[1][0] for f in x.frames]

        def on_w(m_, where, x=x, problems=problems, seq=seq):
            if any(e[0] == 'write' and e[1] == 'short' for e in x.events):
                return native_short_write(ck, problems)
            sc = scen_for(m_, x.frames, x.total, x.nreads, end)
            out = ck.replay([sc])[0]
            nseq, nclosed = native_seq(out)
            desc = f"pipeline {[f[1][0] for f in x.frames]} delivered in reads of {[mval(m_, z3.BitVec('n' if i == 0 else f'n!{i}', 64)) for i in range(x.nreads)]}, peer then {end}: " \
                   f"{'; '.join(problems)} | native: responses {nseq}, closed_by_server={nclosed}"
            must, may, executed, closes = expectations(x.frames)
            order = [a for a in executed if a in nseq]
            native_bad = (nseq != order) or any(nseq.count(a) != 1 for a in must) or (closes and not nclosed)
            if nseq != seq:
                return None, desc + ' (native response sequence differs from the engine\'s)', sc
            return (True if native_bad else None), desc, sc
        ck.obligation('in-order, exactly-once answers and quit rules', p.pc, z3.BoolVal(not problems), {}, on_w, [z3.ULE(limit, 2048)])
        ck.cover('pipeline with ' + ('quit' if 'quit' in opsn else 'quitq' if 'quitq' in opsn else 'no quit'), True)
        if x.nreads > 1:
            ck.cover('pipeline delivered in several segments', True)
        if 'touch' in opsn or 'gatq' in opsn:
            ck.cover('unimplemented opcode in the pipeline', True)
        if len(ck.samples) < 6:
            ck.sample({'pipeline': opsn, 'reads': x.nreads, 'end': end, 'responses': seq, 'executed': handled, 'closed': x.closed})
        # translator validation on a sample of paths
        if nval < (2 if tier == 'quick' else 6):
            m_ = ck.witness(p.pc, [z3.ULE(limit, 2048)])
            if m_ is not None and m_ != 'unknown':
                nval += 1
                sc = scen_for(m_, x.frames, x.total, x.nreads, end)
                nseq, nclosed = native_seq(ck.replay([sc])[0])
                if nseq == seq and (nclosed or not x.closed):
                    ck.replays_ok += 1
                else:
                    ck.replays_bad += 1
                    ck.inconclusive.append(f'translator validation: pipeline {opsn} {end}: engine responses {seq} closed={x.closed}; native {nseq} closed={nclosed} scenario {sc}')


def run(tier, seed, replay_path=None):
    ck = Check('C12', tier, seed)
    if replay_path:
        return generic_replay(ck, replay_path)
    ck.engine()
    m = 2
    menu_n = 8 if tier == 'quick' else 12
    # thorough: the wider menu (12 opcodes) and both endings for every first request.  Deeper cuts were tried and did not finish:
    # 3 requests from 12 opcodes (> 1 h) and 2 requests from 16 opcodes with 4 reads plus 3 requests from 6 opcodes (> 40 min);
    # they are outside the bound.
    ck.bounds.update({'pipeline': f'{m} requests from a menu of {menu_n} opcodes ({[e[0] for e in MENU[:menu_n]]}), fresh server',
                      'reads': f'<= {m + 1} reads of symbolic size', 'peer after the stream': 'closes / stays silent'})
    ck.assumptions += ['socket model of mirse/models/tokio_io.py; timeout fires only when the peer is silent', 'library models of DESIGN 3.3']
    items = [(first, end) for end in ('eof', 'silent') for first in range(menu_n)]
    if tier == 'quick':
        items = [(first, 'eof') for first in range(menu_n)] + [(first, 'silent') for first in (0, 3, 5, 7)]
    ck.fork_map(items, lambda c, it: explore_first(c, it[0], m, menu_n, tier, it[1], reads=m + 1))
    for need in ('pipeline with quit', 'pipeline with quitq', 'pipeline with no quit', 'pipeline delivered in several segments', 'unimplemented opcode in the pipeline'):
        ck.covers.setdefault(need, False)
    # an oversized request inside a pipeline: skipped exactly, whatever the segmentation, so that its followers are served
    from . import sock_common
    sock_common.c12_socket(ck, tier)
    return ck.finish()


if __name__ == '__main__':
    main(run)

"""C16 - every command completes: no deadlock or livelock between connections.

(a) every store-level entry point of both store variants, single client, all paths from an arbitrary state: no DashMap call
    (nor anything that can block on the map) while the calling thread holds a Ref/RefMut/iterator guard of that map - the MIR's
    explicit drop(guard) makes the live range exact - and the closures that run under a shard lock (remove_if predicate,
    alter_all, the iterator filter) perform no map call; every loop ends within its unwinding bound;
(b) all interleavings of 2..3 clients issuing any commands, including flush and stores that trigger the eviction sweep: some
    client can always take a step (no state in which every unfinished client waits for a lock) and every command returns.
With at most one guard per thread and no blocking call under a guard, lock ordering between shards cannot matter; same-shard
(worst case) is assumed for every pair of keys.
"""
import z3
from .common import *
from .conc_checks import explore_program
from .store_common import *
from .world import St
from . import policy_checks as PC
from mirse.models.bytesm import vlen
from mirse.values import BV

L = PC.L


def single_client(ck, it):
    E = ck.E
    E.loop_bound = 8
    K = 2
    st = St(K)
    inp = In()
    for policy in (it[0],):
        for cmd in (it[1],):
            ss = summarize(E, cmd, 0, K, st, inp, policy, L if policy else None,
                           extra_assume=([z3.ULT(L, 1 << 62), z3.ULT(st.usage, 1 << 62)] if policy else []), ck=ck)
            n_dead = sum(1 for s in ss if s.status == 'deadlock')
            n_inc = sum(1 for s in ss if s.status == 'inconclusive')
            for s in ss:
                if s.status == 'deadlock':
                    ck.obligation(f'{cmd} ({policy or "plain"}): no map call while holding a guard of the map', s.pc, z3.BoolVal(False), {}, None, [])
                elif s.status in ('ok', 'panic'):
                    ck.obligations += 1
                    ck.discharged += 1
            ck.cover(f'{cmd} ({policy or "plain"}) explored', len(ss) > 0)
            ck.sample({'cmd': cmd, 'policy': policy or 'none', 'paths': len(ss), 'self_deadlock_paths': n_dead, 'unwinding_failures': n_inc})


PROGRAMS = {
    'set||set': dict(names=[['set'], ['set']]),
    'set||flush': dict(names=[['set'], ['flush']]),
    'get||flush': dict(names=[['get'], ['flush']], stale=True),
    'delete||set': dict(names=[['delete'], ['set']]),
    'cas-set||set': dict(names=[['set'], ['set']], free_cas=[(0, 0)], stale=True),
    'cas-incr||set': dict(names=[['increment'], ['set']], free_cas=[(0, 0)]),
    'incr||append': dict(names=[['increment'], ['append']]),
    'set||get||delete': dict(names=[['set'], ['get'], ['delete']]),
    'flush||flush||set': dict(names=[['flush'], ['flush'], ['set']]),
}
def final_accounting(progs, obs, final, st):
    # key absent at the start, unconditional stores / deletes / gets only: none of the known drift sources (overwrite of an
    # existing record, rejected conditional store, flush, lazy expiry) applies unless two stores hit the key
    nstores = sum(1 for p in progs for c, _ in p if c == 'set')
    if nstores > 1:
        return z3.BoolVal(True)
    fv, fval, fflags, fcas, usage = final
    tot = z3.If(fv, BV(24) + vlen(fval), BV(0))
    return z3.Implies(z3.Not(st.present[0]), usage == tot)


def reset_race_region(progs, sched, st, obs, events):
    """known finding C15-reset-races-inflight-accounting: the eviction sweep of a store (incr_mem_usage), finding the
    store empty, overwrites the usage counter while another client's command is in progress (that client's removal / increment and
    its matching decrement / insert straddle the reset)"""
    for k, (t, op) in enumerate(sched):
        if op != 'atomic.store':
            continue
        # the reset site of the sweep (incr_mem_usage): this thread's command began with the usage increment and it is not a delete
        mine = [sched[i][1] for i in range(k) if sched[i][0] == t]
        swept = 'atomic.fetch_add' in mine and 'map.remove_if' not in mine and mine[-1:] == ['map.len']
        others = {u for u, _ in sched if u != t}
        straddle = any(any(sched[i][0] == u for i in range(k)) and any(sched[i][0] == u for i in range(k + 1, len(sched))) for u in others)
        if swept and straddle:
            return {'reset-races-inflight-accounting': z3.BoolVal(True)}
    return {}


def never_undercounted(progs, obs, final, st):
    # whatever the initial state and the known upward drift: the accounted usage never ends below the bytes actually stored
    # (and has not wrapped below zero)
    fv, fval, fflags, fcas, usage = final
    tot = z3.If(fv, BV(24) + vlen(fval), BV(0))
    return z3.And(z3.UGE(usage, tot), z3.ULT(usage, 1 << 62))


POLICY_PROGRAMS = {
    'evicting set||set': dict(names=[['set'], ['set']], extra=[('accounted usage is not below the stored total afterwards (C15)', never_undercounted)]),
    'evicting set||get': dict(names=[['set'], ['get']], stale=True),
    'evicting set||flush': dict(names=[['set'], ['flush']]),
    'evicting set||delete': dict(names=[['set'], ['delete']], extra=[('accounted usage equals the stored total afterwards (C15)', final_accounting),
                                                                           ('accounted usage is not below the stored total afterwards (C15)', never_undercounted)]),
    'set||get (policy)': dict(names=[['set'], ['get']], stale=True, extra=[('accounted usage equals the stored total afterwards (C15)', final_accounting),
                                                                           ('accounted usage is not below the stored total afterwards (C15)', never_undercounted)]),
    'get||get (policy, expired item)': dict(names=[['get'], ['get']], stale=True, extra=[('accounted usage is not below the stored total afterwards (C15)', never_undercounted)]),
    'get||delete (policy, expired item)': dict(names=[['get'], ['delete']], stale=True, extra=[('accounted usage is not below the stored total afterwards (C15)', never_undercounted)]),
    'evicting set||set||get': dict(names=[['set'], ['set'], ['get']]),
}


def cas0(progs, st):
    return [inp.cas == 0 for p in progs for _, inp in p]


def run_item(ck, it, tier):
    kind, name = it
    ck.E.loop_bound = 8
    if kind == 'single':
        single_client(ck, name)
    elif kind == 'plain':
        P = PROGRAMS[name]
        free = set(P.get('free_cas', []))

        def cons(progs, st, free=free):
            # request CAS 0 except where the program says otherwise (conditional stores take other paths: retry loops, counter updates)
            return [inp.cas == 0 for t, p in enumerate(progs) for i, (_, inp) in enumerate(p) if (t, i) not in free]
        explore_program(ck, P['names'], constraints=cons, allow_stale=P.get('stale', False), check_lin=False, known_regions=False, budget_s=900)
    else:
        prefixes = None
        if isinstance(name, tuple):
            name, prefixes = name
        P = POLICY_PROGRAMS[name]

        def cons(progs, st):
            # accounted usage = stored total in the pre-state (what one insert per key reaches; replayable natively)
            return cas0(progs, st) + [z3.ULT(L, 1 << 40), st.usage == z3.If(st.present[0], BV(24) + vlen(st.val[0]), BV(0))]
        return explore_program(ck, P['names'], constraints=cons, allow_stale=P.get('stale', False), policy='random', memory_limit=L,
                               check_lin=False, known_regions=False, regions_fn=reset_race_region, budget_s=900, prefixes=prefixes, extra_obligations=(P.get('extra') if ck.pid in ('C14', 'C15') else None),
                               frontier_depth=(12 if prefixes == 'frontier' else None))


def connection_level(ck, tier):
    """no livelock in the connection loop: the real Client::handle on [get of a stored item][noop] towards a peer that may stop
    reading at any write (send buffer full from then on): every poll of the task returns - it completes or suspends, it never
    spins.  A loop that passes its unwinding bound is replayed over loopback: two clients that do not read their (large)
    responses must not keep a third client from being served."""
    from . import sock_common as SC
    from . import handler_common as HC
    from .wire import frame, parse_response
    from .world import St
    import struct
    E = ck.E
    st = St(1)
    key = b'kk'
    req = frame(0x00, key, opaque=0x11223344) + frame(0x0a, opaque=0x5a5a5a5a)

    def h(E):
        E.assume(SC.limit == (1 << 22), st.present[0], st.live(0), z3.ULE(vlen(st.val[0]), 1 << 21), st.now == 1000, z3.ULE(st.cas_id, 1000))
        for c in st.wellformed():
            E.assume(c)
        for j, b in enumerate(req):
            E.assume(z3.Select(HC.WIRE, BV(j)) == b)
            E.known_bytes[j] = b
        s = SC.Stream(0)
        s.total = BV(len(req))
        E.loop_bound = 6
        return SC.run_client(E, st, s, end='silent', max_reads=3, wslow=True)
    res = ck.explore(h)

    def on_live(m, where):
        big = frame(0x01, key, struct.pack('>II', 0, 0), b'v' * (512 * 1024), opaque=7)
        gets = frame(0x00, key, opaque=1) * 60
        noop = frame(0x0a, opaque=9)
        slow = {'chunks': [big.hex(), gets.hex()], 'pause_ms': 30, 'read_ms': 0, 'end': 'hold'}
        sc = {'kind': 'socket', 'item_limit': 1 << 21, 'timeout_secs': 5, 'connection_limit': 16,
              'conns': [slow, dict(slow), dict(slow), {'chunks': [noop.hex()], 'pause_ms': 30, 'read_ms': 2500, 'end': 'hold'}]}
        out = ck.replay([sc], timeout=60)[0]
        got = out['conns'][3].get('received', '')
        desc = f"three clients pipeline 60 gets of a 512 KiB item each and do not read; a fourth client's noop is answered: {len(got) >= 48}"
        return (True if len(got) < 48 else None), desc, sc
    n_ok = 0
    for p in res:
        if p.status == 'inconclusive' and 'unwinding bound' in str(p.info):
            if p.info in ck.inconclusive:
                ck.inconclusive.remove(p.info)
            ck.obligation('connection: the task suspends when the peer stops reading (no loop spins on a full send buffer)', p.pc, z3.BoolVal(False), {}, on_live, [])
            continue
        if p.status == 'ok':
            n_ok += 1
            x = p.out
            ck.obligations += 1
            ck.discharged += 1
            if x.state == 'pending':
                ck.cover('connection: suspended on a full send buffer / silent peer', True)
    ck.cover('connection: write path towards a slow reader explored', n_ok > 0)
    ck.bounds['connection'] = 'Client::handle on [get][noop], peer may stop reading at any write, loops unwound <= 6 times'


def run(tier, seed, replay_path=None):
    ck = Check('C16', tier, seed)
    if replay_path:
        return generic_replay(ck, replay_path)
    ck.engine()
    singles = [('single', (pol, cmd)) for pol in (None, 'random') for cmd in CMDS]
    # (the 3-client program on the eviction layer does not finish within its exploration budget: outside the bound)
    items = [('plain', n) for n in PROGRAMS] + [('policy', n) for n in POLICY_PROGRAMS if n != 'evicting set||set||get']
    if tier == 'quick':
        items = [('plain', n) for n in ('set||set', 'set||flush', 'get||flush', 'delete||set', 'cas-set||set')] + \
                [('policy', n) for n in ('evicting set||set', 'evicting set||get', 'evicting set||flush', 'evicting set||delete')]
    ck.bounds.update({'single client': 'every command, both store variants, 2 keys, arbitrary state', 'programs': [n for _, n in items],
                      'eviction sweep': 'unwound <= 8 times', 'granularity': 'calls into DashMap / atomics'})
    ck.assumptions += ['DashMap: a call blocks iff another thread holds a conflicting guard of the map (same shard assumed); parking_lot fairness not modelled',
                       'sequential consistency']
    # the heaviest program is split over the worker processes by decision prefix
    heavy = [it for it in items if it == ('policy', 'evicting set||set') or it == ('policy', 'evicting set||set||get')]
    items = [it for it in items if it not in heavy]
    for kind, name in heavy:
        pref = run_item(ck, (kind, (name, 'frontier')), tier)
        pref = sorted(pref)
        n = 13
        for i in range(n):
            chunk = pref[i::n]
            if chunk:
                items.append((kind, (name, chunk)))
    ck.fork_map(singles + items, lambda c, it: run_item(c, it, tier))
    connection_level(ck, tier)
    return ck.finish()


if __name__ == '__main__':
    main(run)

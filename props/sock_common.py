"""Socket-level harnesses: the real `Client::handle` coroutine (read_frame -> decode -> skip_bytes -> handle_request ->
write -> shutdown loop) driven over the socket model of mirse/models/tokio_io.py.

A connection's inbound stream is a sequence of symbolic frames laid out back to back on the wire array, optionally followed
by a partial frame / garbage; how the stream is cut into reads is symbolic (every read size is a solver variable)."""
import z3
from mirse.values import *
from mirse.models.bytesm import Buf, Rope, WIRE
from mirse.models.tokio_io import Sock
from .wire import Hdr, new_codec, B
from .world import St, World, mk, fld
from .common import mval, same

limit = z3.BitVec('limit', 32)


class Stream:
    """m frames back to back; frame i starts at off[i] (BV64 terms); tail = extra bytes after the last frame"""

    def __init__(self, m, tail=None):
        self.m = m
        self.off = [BV(0)]
        self.H = []
        for i in range(m):
            h = Hdr(self.off[i])
            self.H.append(h)
            self.off.append(z3.simplify(self.off[i] + 24 + h.body64))
        self.tail = tail if tail is not None else BV(0)
        self.total = z3.simplify(self.off[m] + self.tail)


def new_connection(E, total, end='eof', wfail=False, cap=4096, wslow=False):
    capv = cap if z3.is_expr(cap) else BV(cap)
    sock = Sock(BV(0), total, end, (), False, wfail, (), wslow)
    # through the real constructor, so that fields a change adds get the value the crate gives them; the read buffer is then
    # placed on the wire array (empty, at position 0, with the capacity the constructor chose)
    try:
        conn = E.call(E.fn('MemcacheBinaryConnection', 'new'), [sock, limit])
        names = E.structs['MemcacheBinaryConnection']
        f = list(conn.fields)
        f[names.index('buffer')] = Buf(WIRE, BV(0), BV(0), capv)
        f[names.index('codec')] = new_codec(limit)
        return Agg('MemcacheBinaryConnection', f)
    except (Unsupported, KeyError, ValueError):
        return mk(E, 'MemcacheBinaryConnection', stream=sock, codec=new_codec(limit), buffer=Buf(WIRE, BV(0), BV(0), capv))


def new_client(E, w, total, end='eof', wfail=False, sem=None, wslow=False, cap=4096):
    conn = new_connection(E, total, end, wfail, wslow=wslow, cap=cap)
    cfg = mk(E, 'ClientConfig', item_memory_limit=limit, rx_timeout_secs=BV(60, 32), _wx_timeout_secs=BV(60, 32))
    if sem is None:
        sem = Ref(E.alloc(Agg('Semaphore', [BV(0)])))
    client = mk(E, 'Client', stream=conn, addr=Opaque('addr'), config=cfg, handler=E.heap[w.handler_cell], limit_connections=sem)
    return E.alloc(client), sem


def drive(E, coro, max_polls=4):
    """poll a coroutine to completion -> ('ready', value) | ('pending', None)"""
    cell = E.alloc(coro)
    for _ in range(max_polls):
        c = E.heap[cell]
        r = E.call(c.fn, [Agg('Pin', [Ref(cell)]), Opaque('cx')])
        if r.var == 0:
            return 'ready', r.fields[0]
        # Pending: in the models only a silent peer or an exhausted semaphore blocks, and nothing will wake it
        return 'pending', None
    raise Inconclusive('poll bound')


def conn_of(E, client_cell):
    c = E.heap[client_cell]
    return fld(E, c, 'Client', 'stream')


def sock_of(E, client_cell):
    return fld(E, conn_of(E, client_cell), 'MemcacheBinaryConnection', 'stream')


def watch_handler(E):
    """record every call of BinaryHandler::handle_request (request variant + header of the request)"""
    f = E.fn('BinaryHandler', 'handle_request')
    E.watch = {f.name: lambda E, args: E.events.append(('handle', args[1].var, args[1]))}
    # every response handed to the connection for writing (the value at the time of the call)
    wf = E.fn('MemcacheBinaryConnection', 'write')
    E.watch[wf.name] = lambda E, args: E.events.append(('conn.write', E.load(args[1])))


class Run:
    pass


def run_client(E, st, stream, end='eof', wfail=False, max_reads=4, policy=None, memory_limit=None, key_of=None, wslow=False):
    E.max_reads = max_reads
    w = World(E, st, policy, memory_limit)
    w.map.key_resolver = key_of or (lambda E, k: 0)
    ccell, sem = new_client(E, w, stream.total, end, wfail, wslow=wslow)
    watch_handler(E)
    handle = E.fn('Client', 'handle')
    co = E.call(handle, [Ref(ccell)])
    x = Run()
    x.w = w
    E.panic_out = lambda: x
    x.state, _ = drive(E, co)
    sock = sock_of(E, ccell)
    x.out = list(sock.out)
    x.closed = sock.closed
    x.rpos = sock.rpos
    x.buffer = fld(E, conn_of(E, ccell), 'MemcacheBinaryConnection', 'buffer')
    x.handled = [e for e in E.events if e[0] == 'handle']
    x.responses = [e[1] for e in E.events if e[0] == 'conn.write']
    x.sem = E.load(sem).fields[0]
    x.client_cell = ccell
    x.sem_ref = sem
    return x


def c09_socket(ck, tier):
    from . import C13
    C13.socket_checks(ck, tier, for_prop='C09')


def c10_socket(ck, tier):
    from . import C13
    C13.socket_checks(ck, tier, for_prop='C10')


def c12_socket(ck, tier):
    from . import C13
    C13.socket_checks(ck, tier, for_prop='C12')

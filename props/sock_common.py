"""Socket-level harnesses (read_frame / skip_bytes / Client::handle coroutines). Filled in later."""


def c09_socket(ck, tier):
    ck.notes.append('socket level not built yet')


def c10_socket(ck, tier):
    ck.notes.append('socket level not built yet')

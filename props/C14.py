"""C14 - random eviction keeps stored bytes within the memory limit.

(1) one step from any state whose accounted usage is not below the stored total: after a store the stored total is at most
    limit + the record just written, after any other command it has not grown; the record being written is present; the sweep
    terminates within keys+3 unwindings; "usage covers content" is preserved (inductive);
(2) bounded histories from the empty store (limits down to 0) with the same assertions, replayed natively.
The concurrent form is covered by the schedule exploration of C16.
"""
from .common import *
from . import policy_checks as PC


def run(tier, seed, replay_path=None):
    ck = Check('C14', tier, seed)
    if replay_path:
        return generic_replay(ck, replay_path)
    ck.engine()
    ck.bounds.update({'keys': 2, 'limit': 'any u64 < 2^62 (one-step) / < 2^40 (histories)', 'eviction sweep': 'unwound keys+3 times'})
    ck.assumptions += ['DashMap iteration visits the present entries in some order; the victim index is an arbitrary value in range',
                       'record size = 24-byte header + value length', 'library models of DESIGN 3.3']
    PC.run_c14_step(ck, tier)
    PC.run_c14_bmc(ck, tier)
    # concurrent form, on the side that lets the store outgrow its limit: under every schedule of two clients the accounted usage
    # does not end below the bytes stored (the step check above then bounds the stored total by limit + record)
    from . import C16
    names = ['evicting set||delete'] + ([] if tier == 'quick' else ['evicting set||set']) + [ 'get||get (policy, expired item)', 'get||delete (policy, expired item)', 'set||get (policy)']
    ck.fork_map(names, lambda c, name: C16.run_item(c, ('policy', name), tier))
    return ck.finish()


if __name__ == '__main__':
    main(run)

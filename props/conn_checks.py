"""Connection-lifecycle harnesses on top of C12's pipeline layout: faults at any byte offset (C18) and slot return (C17)."""
import z3, struct
from .common import *
from .wire import *
from .world import St
from . import sock_common as SC
from . import handler_common as HC
from . import C12
from .C12 import MENU, frame_len, lay_out
from .sock_common import limit
from mirse.models.bytesm import WIRE
from mirse.values import Coro

cut = z3.BitVec('cut', 64)          # bytes of the last frame that are delivered before the fault
badbyte = z3.BitVec('badbyte', 8)   # value of the corrupted magic byte


def run_lifecycle(E, st, ops, end, fault, max_reads, wfail=False, spawned=False, permits=None, cap=4096):
    """m complete frames (ops), then according to `fault`:
       None      nothing more
       'partial' the first `cut` bytes of one more frame (0 <= cut < its length)
       'corrupt' one more complete frame whose magic byte is `badbyte` != 0x80
    then the peer closes ('eof'), resets ('error') or goes silent ('silent')."""
    extra = 2   # the frame after the complete ones is a set (has header, extras, key, value)
    if fault == 'partial-big':
        # ... or a set whose body (1025 bytes) exceeds the item limit (1024): cut anywhere, also inside the part that is skipped
        extra = 16
        fault = 'partial'
        E.assume(limit == 1024)
    magic = {len(ops): badbyte} if fault == 'corrupt' else None
    if fault == 'corrupt':
        E.assume(badbyte != 0x80)
    frames, total = lay_out(E, list(ops) + ([extra] if fault else []), magic)
    complete = frames[:len(ops)]
    sent = total
    if fault == 'partial':
        last_off, last_e, _ = frames[-1]
        E.assume(z3.ULT(cut, frame_len(last_e)))
        sent_bv = BV(last_off) + cut
    elif fault == 'corrupt':
        last_off, last_e, _ = frames[-1]
        sent_bv = BV(total)
    else:
        sent_bv = BV(total)
    E.assume(z3.UGE(limit, 1024), z3.ULE(limit, 1 << 20))
    E.assume(z3.Not(st.present[0]), st.cas_id == 1, st.now == 0)
    for c in st.wellformed():
        E.assume(c)
    E.max_reads = max_reads
    w = SC.World(E, st)
    w.map.key_resolver = lambda E, k: 0
    sem = None
    if permits is not None:
        sem = Ref(E.alloc(Agg('Semaphore', [permits])))
    ccell, sem = SC.new_client(E, w, sent_bv, end, wfail, sem, cap=cap)
    SC.watch_handler(E)
    x = SC.Run()
    x.w = w
    x.frames = frames
    x.complete = complete
    x.sem_ref = sem
    E.panic_out = lambda: x
    if spawned:
        body = E.fn_named('run::{closure#0}::{closure#1}')
        co = Coro(body, [E.heap[ccell]])
        cell = E.alloc(co)
        r = E.call(body, [Agg('Pin', [Ref(cell)]), Opaque('cx')])
        x.state = 'ready' if r.var == 0 else 'pending'
        cl = E.heap[cell].upvars[0]
        conn = SC.fld(E, cl, 'Client', 'stream')
    else:
        handle = E.fn('Client', 'handle')
        co = E.call(handle, [Ref(ccell)])
        x.state, _ = SC.drive(E, co)
        conn = SC.conn_of(E, ccell)
    sock = SC.fld(E, conn, 'MemcacheBinaryConnection', 'stream')
    x.out = list(sock.out)
    x.closed = sock.closed
    x.rpos = sock.rpos
    x.handled = [e for e in E.events if e[0] == 'handle']
    x.permits = E.load(sem).fields[0]
    x.nreads = sum(1 for e in E.events if e[0] == 'read' and not isinstance(e[1], str))
    x.sent = sent_bv
    x.total = total
    x.events = list(E.events)
    return x

"""Bounded histories for the time-dependent properties (C05, C08): k commands from {set, flush, get, delete} on one key from
the empty store, all arguments and clock advances symbolic, composed in the solver from the path summaries of the real code.
  flush rule (C08): a get at time >= f + n never hits an item that was stored before the flush issued at time f with delay n
  ttl rule   (C05): a get at time >= s + ttl never hits an item whose last successful store was at time s with ttl != 0
"""
import z3
from .common import *
from .store_common import CMD_ID
from . import bmc
from mirse.models.bytesm import vlen


def run(ck, tier, which):
    k = 4 if tier == 'quick' else 5
    cmds = ['set', 'flush', 'get', 'delete']
    sysm = bmc.System(ck, 1, cmds)
    tr, cs = sysm.unroll(k)
    ck.bounds['history'] = f'{k} commands from {cmds} on 1 key from the empty store; TTLs, delays, CAS and clock advances symbolic'

    def store_ok(t):
        return z3.And(tr.cmd[t] == CMD_ID['set'], tr.rkind[t] == 0)

    def hit(u):
        return z3.And(tr.cmd[u] == CMD_ID['get'], tr.rkind[u] == 0)
    small = [z3.ULE(tr.S[0].now, 100)] + [z3.ULE(vlen(tr.I[t].val), 8) for t in range(k)] + [z3.ULE(tr.S[k].now, 100000)]

    def on_w(m, where):
        rep, desc, sc, out = sysm.replay(m, tr)
        return rep, desc, sc
    if 'flush' in which:
        alts = []
        for t in range(k):
            for u in range(t + 1, k):
                no_store_between = z3.And([z3.Not(store_ok(v)) for v in range(t + 1, u)] or [z3.BoolVal(True)])
                alts.append(z3.And(tr.cmd[t] == CMD_ID['flush'], hit(u), no_store_between,
                                   z3.UGE(tr.S[u].now, tr.S[t].now + z3.ZeroExt(32, tr.I[t].ttl))))
        ck.cover('history: a delayed flush followed by a store and a hit', cs + [tr.cmd[0] == CMD_ID['flush'], tr.I[0].ttl != 0, store_ok(1), hit(2)])
        ck.obligation(f'bmc-k{k}: nothing stored before a flush is retrievable from delay seconds after it', cs, z3.Not(z3.Or(alts)), {}, on_w, small)
    if 'ttl' in which:
        alts = []
        for s_ in range(k):
            for u in range(s_ + 1, k):
                no_store_between = z3.And([z3.Not(store_ok(v)) for v in range(s_ + 1, u)] or [z3.BoolVal(True)])
                alts.append(z3.And(store_ok(s_), tr.I[s_].ttl != 0, hit(u), no_store_between,
                                   z3.UGE(tr.S[u].now, tr.S[s_].now + z3.ZeroExt(32, tr.I[s_].ttl))))
                # and the other direction: retrievable at every time before s + ttl unless deleted / flushed / overwritten
                quiet = z3.And([z3.And(tr.cmd[v] == CMD_ID['get']) for v in range(s_ + 1, u)] or [z3.BoolVal(True)])
                alts.append(z3.And(store_ok(s_), tr.cmd[u] == CMD_ID['get'], tr.rkind[u] != 0, quiet,
                                   z3.Or(tr.I[s_].ttl == 0, z3.ULT(tr.S[u].now, tr.S[s_].now + z3.ZeroExt(32, tr.I[s_].ttl)))))
        ck.cover('history: store with ttl then a miss after expiry', cs + [store_ok(0), tr.I[0].ttl != 0, tr.cmd[1] == CMD_ID['get'], tr.rkind[1] != 0])
        ck.obligation(f'bmc-k{k}: an item is retrievable exactly until its last store time plus its ttl', cs, z3.Not(z3.Or(alts)), {}, on_w, small)

"""C19 - quiet variants differ from loud ones only in what is sent back.

Relational check: the same symbolic frame is executed twice from the same arbitrary well-formed store state, once with the
loud opcode and once with its quiet twin (the second wire array differs from the first in the opcode byte only), through the
real decode -> handle_request -> encode_message.  Asserted: identical post-states (values, flags, CAS, timestamps, ttl, CAS
counter); error responses identical apart from the opcode byte; successful quiet mutations and quiet get misses are silent;
quiet get hits carry the loud payload.  One step from an arbitrary state extends to sequences with any subset of positions
toggled (the states after each step are again equal).
"""
import z3
from .common import *
from .wire import *
from .world import St
from . import handler_common as HC
from mirse.models.bytesm import WIRE, Rope

PAIRS = {0x01: 0x11, 0x02: 0x12, 0x03: 0x13, 0x04: 0x14, 0x05: 0x15, 0x06: 0x16, 0x0e: 0x19, 0x0f: 0x1a, 0x08: 0x18, 0x00: 0x09, 0x0c: 0x0d}
H = Hdr(0)


def run(tier, seed, replay_path=None):
    ck = Check('C19', tier, seed)
    if replay_path:
        return generic_replay(ck, replay_path)
    E = ck.engine()
    st = St(2)
    qop = BV(0, 8)
    for lo, q in PAIRS.items():
        qop = z3.If(H.opcode == lo, BV(q, 8), qop)
    WIRE2 = z3.Store(WIRE, BV(1), qop)
    names = {v: k for k, v in E.enums['BinaryRequest']}
    ck.bounds = {'pairs': sorted(hex(k) for k in PAIRS), 'step': 'one request from an arbitrary well-formed state (2 keys), both variants',
                 'lengths': 'unbounded'}
    ck.assumptions = ['library models of DESIGN 3.3', 'key identity: the request key names map slot 0',
                      'sequences: by induction on the equality of the two post-states']

    def h(E):
        HC.base_assume(E, st)
        E.assume(H.op_in(*PAIRS.keys()))
        xa = HC.run_request(E, st, base=WIRE)
        xb = HC.run_request(E, st, base=WIRE2)
        return xa, xb
    res = ck.explore(h)
    small = [z3.ULE(HC.total, 128), z3.ULE(st.cas_id, 1000), z3.ULE(st.now, 100000), z3.Or(H.keylen == 4, H.keylen == 0)]
    nval = 0
    for p in res:
        if p.status != 'ok':
            if p.status == 'panic':
                ck.notes.append('panic path (C10 subject): ' + str(p.info))
            continue
        xa, xb = p.out
        pc = p.pc

        def on_w(m, where, xa=xa, xb=xb):
            from .C11 import scen_frame
            sa, idx = scen_frame(m, st)
            sb = json.loads(json.dumps(sa))
            fb = bytearray(bytes.fromhex(sb['steps'][idx]['frame']))
            fb[1] = PAIRS[fb[1]]
            sb['steps'][idx]['frame'] = bytes(fb).hex()
            probe = [{'frame': frame(0x00, b'key0').hex()}]
            sa['steps'] += probe
            sb['steps'] += probe
            oa, ob = ck.replay([sa, sb])
            ca, cb = oa['steps'][idx], ob['steps'][idx]
            pa, pb = oa['steps'][idx + 1], ob['steps'][idx + 1]
            desc = f"opcode 0x{mval(m, H.opcode):02x}: loud -> {ca.get('response')} ; quiet 0x{fb[1]:02x} -> {cb.get('response')} ; " \
                   f"get afterwards: loud run {pa.get('response')} / quiet run {pb.get('response')}"
            # natively visible difference: the probe, or a response that is not the loud one filtered
            ra, rb = ca.get('response'), cb.get('response')
            diff = pa.get('response') != pb.get('response')
            if rb is not None:
                diff = diff or (ra is None) or (ra[:2] + ra[4:] != rb[:2] + rb[4:])
            else:
                st_a = parse_response(bytes.fromhex(ra))['status'] if ra else None
                getmiss = fb[1] in (0x09, 0x0d) and st_a == 1
                diff = diff or not (st_a == 0 and fb[1] not in (0x09, 0x0d) or getmiss)
            return (True if diff else None), desc, [sa, sb]
        if xa.tag != xb.tag:
            ck.obligation('both variants are decoded alike', pc, z3.BoolVal(False), {}, on_w, small)
            continue
        if xa.tag != 'some':
            ck.obligations += 1
            ck.discharged += 1
            continue
        va, vb = names[xa.req_variant], names[xb.req_variant]
        ck.cover(f'pair {va}/{vb}', True)
        ck.sample({'loud': va, 'quiet': vb, 'loud_response': xa.data is not None, 'quiet_response': xb.data is not None})
        # identical effects
        eqs = [xa.cas_id == xb.cas_id]
        for i in range(2):
            a, b = xa.post[i], xb.post[i]
            eqs.append(a['present'] == b['present'])
            both = a['present']
            for f in ('flags', 'cas', 'ts', 'ttl'):
                if a[f] is not None and b[f] is not None:
                    eqs.append(z3.Implies(both, a[f] == b[f]))
            eqs.append(z3.Implies(both, same(a['val'], b['val'], modbase=True)))
        ck.obligation('identical effect on the store', pc, z3.And(eqs), {}, on_w, small)
        # responses
        if xa.data is None:
            ck.obligation('loud commands always answer', pc, z3.BoolVal(False), {}, on_w, small)
            continue
        ra = HC.RespView(E, xa.data)
        is_get = H.op_in(0x00, 0x0c)
        silent_expected = z3.If(is_get, ra.status == 1, ra.status == 0)
        if xb.data is None:
            ck.obligation('quiet is silent only on success (mutations) / miss (gets)', pc, silent_expected, {}, on_w, small)
            ck.cover('quiet silent', True)
        else:
            rb = HC.RespView(E, xb.data)
            ck.obligation('quiet answers only errors (mutations) / hits (gets)', pc, z3.Not(silent_expected), {}, on_w, small)
            pa, pb = HC.parts_of(xa.data), HC.parts_of(xb.data)
            same_hdr = z3.And([x[1] == y[1] for k, (x, y) in enumerate(zip(pa[:9], pb[:9])) if k != 1] + [pb[1][1] == qop])
            same_payload = same(Rope(pa[9:]), Rope(pb[9:]), modbase=True)
            ck.obligation('quiet response = loud response apart from the opcode', pc, z3.And(same_hdr, same_payload), {}, on_w, small)
            ck.cover('quiet answered', True)
        if nval < (20 if tier == 'quick' else 10 ** 6):
            m = ck.witness(list(pc) + [z3.Or(H.keylen == 4, H.keylen == 0), z3.ULE(HC.total, 4096)], small)
            if m is not None and m != 'unknown':
                nval += 1
                r, desc, sc = on_w(m, None)
                # on a path where the obligations hold the native run must show no difference
                if r is None:
                    ck.replays_ok += 1
                else:
                    ck.replays_bad += 1
                    ck.inconclusive.append('translator validation: native loud/quiet runs differ where the engine proved them equal: ' + desc)
    for lo, q in PAIRS.items():
        pass
    for need in ('quiet silent', 'quiet answered', 'pair Set/SetQuietly', 'pair Get/GetQuietly', 'pair Increment/IncrementQuiet', 'pair Flush/FlushQuietly'):
        ck.covers.setdefault(need, False)
    return ck.finish()


if __name__ == '__main__':
    main(run)

"""C18 - faults on one connection are contained.

The real `Client::handle` coroutine over the socket model on: m complete valid requests, then a fault - the peer closes,
resets or falls silent after `cut` bytes of the next request (every cut offset 0 .. its length - 1 is one symbolic variable), or
sends a next request whose magic byte is corrupted (any value but 0x80) - with every read size symbolic.
Asserted per path: handle_request has been called for exactly the m complete requests, once each and in order (after a reset: a
prefix of them); never for the incomplete or invalid request; their responses were written in order; the connection task
returns (the server keeps serving).  Effects on the shared store are exactly those calls (C01 gives their meaning).
Isolation between connection tasks and the accept loop continuing are tokio's and are trusted.
"""
import z3
from .common import *
from . import conn_checks as CC
from . import handler_common as HC
from .C12 import MENU, expectations, native_seq
from .wire import wire_bytes
from .world import St
from .sock_common import limit

OPS = [0, 2, 3, 4, 5]      # get set setq noop touch
# the read buffer's spare capacity when the stream starts: 4096 on a fresh connection, less after earlier requests on the same
# connection were consumed (BytesMut gives the consumed part up); symbolic for the 'bufcap' items
BUFCAP = z3.BitVec('bufcap', 64)
FILL_OPAQUE = 0xF1F1F1F1


def filler(nbytes):
    """complete requests totalling nbytes that leave no trace but noop responses with FILL_OPAQUE"""
    from .wire import frame
    if nbytes == 0:
        return b''
    out = b''
    if nbytes % 24:
        for r in range(24):
            if nbytes - 33 - r >= 0 and (nbytes - 33 - r) % 24 == 0:
                out += frame(0x11, b'f', b'\0' * 8, b'z' * r)
                nbytes -= 33 + r
                break
        else:
            raise ValueError('filler size')
    out += frame(0x0a, opaque=FILL_OPAQUE) * (nbytes // 24)
    return out


def scen(m_, x, end, fault):
    n = mval(m_, x.sent)
    data = wire_bytes(m_, n)
    cuts, pos = [], 0
    for i in range(x.nreads):
        k = mval(m_, z3.BitVec('n' if i == 0 else f'n!{i}', 64))
        if k:
            cuts.append(data[pos:pos + k])
            pos += k
    if pos < n:
        cuts.append(data[pos:])
    # a second connection observes afterwards: the server still serves and shows the store contents
    from .wire import frame
    probe = frame(0x00, b'k', opaque=0x777)
    pre = []
    if fault == 'bufcap':
        f = filler(4096 - mval(m_, BUFCAP))
        if f:
            pre = [f]
    cuts = pre + cuts
    return {'kind': 'socket', 'item_limit': mval(m_, limit), 'timeout_secs': 1,
            'conns': [{'chunks': [c.hex() for c in cuts if c], 'pause_ms': 60, 'read_ms': 1500 if end == 'silent' else 400,
                       'end': 'shutdown_write' if fault == 'bufcap' else 'close' if end in ('eof', 'error') else 'hold', 'fin_immediately': fault == 'bufcap'},
                      {'chunks': [probe.hex()], 'pause_ms': 30, 'read_ms': 300, 'end': 'close'}]}


def explore_item(ck, it, m, tier):
    first, end, fault = it
    E = ck.E
    st = St(1)
    R = m + 1 if tier == 'quick' else m + 2

    def h(E):
        rest = OPS if tier != 'quick' else [2, 4]
        ops = [first] + [rest[E.choose(len(rest), 'op')] for _ in range(m - 1)]
        if fault == 'bufcap':
            spare_used = BV(4096) - BUFCAP
            E.assume(z3.UGE(BUFCAP, 64), z3.ULE(BUFCAP, 4096), z3.Or(spare_used == 0, spare_used == 24, z3.UGE(spare_used, 56)))
            return CC.run_lifecycle(E, st, ops, end, None, R, cap=BUFCAP)
        return CC.run_lifecycle(E, st, ops, end, fault, R)
    res = ck.explore(h)
    nval = 0
    for p in res:
        if p.status == 'panic':
            ck.obligation('no panic', p.pc, z3.BoolVal(False), {}, None, [])
            continue
        if p.status != 'ok':
            continue
        x = p.out
        mdl = ck.solve(p.pc)
        if mdl is None or mdl == 'unknown':
            continue
        must, may, executed, _ = expectations(x.complete)
        handled = []
        for ev in x.handled:
            hdr = ev[2].fields[0].fields[0]
            handled.append((mval(mdl, hdr.fields[1]), mval(mdl, hdr.fields[7])))
        wrote = []
        for d in x.out:
            r = HC.RespView(E, d)
            wrote.append((mval(mdl, r.opcode), mval(mdl, r.opaque)) if r.ok else None)
        problems = []
        if end == 'error':
            if handled != executed[:len(handled)]:
                problems.append(f'executed {handled} is not a prefix of the completely sent requests {executed}')
        elif handled != executed:
            problems.append(f'executed {handled}, completely sent requests were {executed}')
        if x.state != 'ready':
            problems.append('the connection task never returns')
        seq = [w_ for w_ in wrote if w_ is not None]
        if seq != [a for a in handled if a in seq] or any(seq.count(a) != 1 for a in must if a in handled):
            problems.append(f'responses {seq} do not match the executed requests {handled}')
        opsn = [f[1][0] for f in x.complete]

        def on_w(m_, where, x=x, problems=problems, seq=seq, executed=executed, must=must):
            sc = scen(m_, x, end, fault)
            out = ck.replay([sc])[0]
            nseq, nclosed = native_seq(out)
            nseq = [a for a in nseq if a[1] != FILL_OPAQUE]
            alive = bool(out['conns'][1].get('received'))
            desc = f"{[f[1][0] for f in x.complete]} then {fault} (cut={mval(m_, CC.cut)} magic=0x{mval(m_, CC.badbyte):02x}) peer {end}, reads {[mval(m_, z3.BitVec('n' if i == 0 else f'n!{i}', 64)) for i in range(x.nreads)]}: " \
                   f"{'; '.join(problems)} | native: responses {nseq}, server still answers a second connection: {alive}"
            if nseq != seq and end != 'error':
                return None, desc + ' (native response sequence differs from the engine\'s)', sc
            bad = (not alive) or any(nseq.count(a) != 1 for a in must) or nseq != [a for a in executed if a in nseq]
            return (True if bad else None), desc, sc
        ck.obligation(f'{end}/{fault}: completely sent requests executed exactly once in order, nothing else, task returns',
                      p.pc, z3.BoolVal(not problems), {}, on_w, [z3.ULE(limit, 2048)])
        ck.cover(f'fault {fault} / peer {end}', True)
        if fault == 'partial':
            ck.cover('cut inside the header', list(p.pc) + [z3.ULT(CC.cut, 24), z3.UGT(CC.cut, 0)])
            ck.cover('cut inside the body', list(p.pc) + [z3.UGE(CC.cut, 24)])
            ck.cover('cut exactly at a request boundary', list(p.pc) + [CC.cut == 0])
        if len(ck.samples) < 6:
            ck.sample({'complete': opsn, 'fault': fault, 'peer': end, 'reads': x.nreads, 'executed': handled, 'responses': seq})
        if nval < 1 and end != 'error':
            m_ = ck.witness(p.pc, [z3.ULE(limit, 2048)])
            if m_ is not None and m_ != 'unknown':
                nval += 1
                sc = scen(m_, x, end, fault)
                out = ck.replay([sc])[0]
                nseq, nclosed = native_seq(out)
                nseq = [a for a in nseq if a[1] != FILL_OPAQUE]
                if nseq == seq and out['conns'][1].get('received'):
                    ck.replays_ok += 1
                else:
                    ck.replays_bad += 1
                    ck.inconclusive.append(f'translator validation: {opsn} {fault} {end}: engine responses {seq}; native {nseq}; scenario {sc}')


def run(tier, seed, replay_path=None):
    ck = Check('C18', tier, seed)
    if replay_path:
        return generic_replay(ck, replay_path)
    ck.engine()
    m = 2
    ck.bounds.update({'stream': f'{m} complete requests from {[MENU[k][0] for k in OPS]} + one faulty/partial request, fresh server',
                      'cut offset': 'symbolic: every offset of the partial request', 'reads': f'<= {m + 2} reads of symbolic size',
                      'fault kinds': 'orderly close, reset (read error), silence (idle timeout), corrupted magic byte'})
    ck.assumptions += ['socket model of mirse/models/tokio_io.py', 'task isolation and the accept loop are tokio\'s (trusted)',
                       'set_nodelay/set_linger are infallible']
    firsts = OPS
    items = [(f, end, fault) for f in firsts for end, fault in
             (('eof', 'partial'), ('error', 'partial'), ('silent', 'partial'), ('eof', 'corrupt'), ('eof', None))]
    items += [(f, 'eof', 'bufcap') for f in (firsts if tier != 'quick' else [2, 4])]
    ck.fork_map(items, lambda c, it: explore_item(c, it, m, tier))
    # "the server keeps serving": whatever happens to one connection around its acceptance, the accept loop goes on
    from . import runtime_checks
    runtime_checks.run_accept_loop(ck, tier)
    for need in ('fault partial / peer eof', 'fault partial / peer error', 'fault partial / peer silent', 'fault corrupt / peer eof',
                 'cut inside the header', 'cut inside the body', 'cut exactly at a request boundary'):
        ck.covers.setdefault(need, False)
    return ck.finish()


if __name__ == '__main__':
    main(run)

"""One-step refinement checks of the store-level commands against the reference model (props/spec.py).

For every `MemcStore` entry point, every addressed key j and every MIR path through it (summaries from store_common),
the solver decides   wellformed(pre) and path condition  =>  obligation   for obligations grouped by "aspect".  The pre-state
is an arbitrary well-formed state vector, so one step covers histories of any length provided well-formedness is inductive,
which the 'invariant' aspect checks on every path.
"""
import z3
from mirse.values import BV
from mirse.models.bytesm import vlen
from .common import mval
from .store_common import *
from .spec import expect, deadline, INF
from . import store_replay as SR


def real_abs(st, s, K):
    """abstract post-state of the real path at time st.now"""
    now = st.now
    P = s.post
    vis = [z3.And(P['present'][i], z3.Or(P['ttl'][i] == 0, z3.ULT(now, P['ts'][i] + z3.ZeroExt(32, P['ttl'][i])))) for i in range(K)]
    dl = [deadline(P['ts'][i], P['ttl'][i]) for i in range(K)]
    return vis, dl


def inv_cas(st_like_present, cas, cas_id, K):
    return [z3.Implies(st_like_present[i], z3.ULT(cas[i], cas_id)) for i in range(K)]


def handler_input_constraints(cmd, inp):
    """the relation between store-level inputs that the wire-level handler establishes (so witnesses replay through frames)"""
    if cmd in ('append', 'prepend'):
        return [inp.flags == 0, inp.ttl == 0]
    return []


def obligations_for(cmd, j, st, inp, s, K):
    """-> list of (aspect, name, formula)"""
    e = expect(cmd, j, st, inp)
    P = s.post
    vis_r, dl_r = real_abs(st, s, K)
    spec = z3.Not(e.unspec)
    obs = []
    if s.rkind == R_PANIC:
        obs.append(('panic', 'no-panic', z3.BoolVal(False)))
        return obs
    # ---- result kind
    obs.append(('kind', 'result-kind', z3.Implies(spec, e.kind == BV(s.rkind, 8))))
    # ---- abstract state per key
    for i in range(K):
        obs.append(('vis', f'visibility-key{i}' + ('-addressed' if i == j else ''), z3.Implies(spec, vis_r[i] == e.vis[i])))
        obs.append(('value', f'value-key{i}', z3.Implies(z3.And(spec, e.vis[i], vis_r[i]), P['val'][i] == e.val[i])))
        obs.append(('flags', f'flags-key{i}', z3.Implies(z3.And(spec, e.vis[i], vis_r[i]), P['flags'][i] == e.flags[i])))
        dl_ok = dl_r[i] == e.dl[i]
        if e.loose_ttl[i] is not None:
            cond, alt = e.loose_ttl[i]
            dl_ok = z3.Or(dl_ok, z3.And(cond, dl_r[i] == alt))
        obs.append(('deadline', f'deadline-key{i}', z3.Implies(z3.And(spec, e.vis[i], vis_r[i]), dl_ok)))
        # cas relations
        obs.append(('cas', f'cas-kept-key{i}', z3.Implies(z3.And(spec, e.cas_keep[i], e.vis[i], vis_r[i]), P['cas'][i] == st.cas[i])))
        fresh = z3.And(spec, e.cas_fresh[i], vis_r[i])
        obs.append(('cas', f'cas-nonzero-key{i}', z3.Implies(fresh, P['cas'][i] != 0)))
        # within one lifetime (the item was retrievable before the mutation) tokens strictly increase => never repeat
        obs.append(('cas-unique', f'cas-increases-key{i}', z3.Implies(z3.And(fresh, st.live(i)), z3.UGT(P['cas'][i], st.cas[i]))))
    # ---- frame: commands addressed to key j leave every other entry untouched (stored representation, not just the view)
    if cmd != 'flush':
        for i in range(K):
            if i == j:
                continue
            same_ = z3.And(P['present'][i] == st.present[i], P['val'][i] == st.val[i], P['flags'][i] == st.flags[i],
                           P['cas'][i] == st.cas[i], P['ts'][i] == st.ts[i], P['ttl'][i] == st.ttl[i])
            obs.append(('frame', f'other-key{i}-untouched', same_))
    # ---- responses
    if s.rkind == R_OK:
        if cmd == 'get':
            obs.append(('result', 'get-returns-stored-value', s.rval == st.val[j]))
            obs.append(('result', 'get-returns-stored-flags', s.rflags == st.flags[j]))
            obs.append(('result', 'get-returns-stored-cas', z3.And(s.rcas == st.cas[j], s.rcas != 0)))
        elif cmd in ('set', 'add', 'replace', 'append', 'prepend', 'increment', 'decrement'):
            obs.append(('cas', 'acknowledged-cas-is-stored-cas', z3.Implies(P['present'][j], s.rcas == P['cas'][j])))
            obs.append(('vis', 'acknowledged-store-is-present', z3.Implies(spec, P['present'][j])))
        if cmd in ('increment', 'decrement'):
            obs.append(('result', 'counter-value', z3.Implies(spec, s.rnum == e.rnum)))
    # ---- invariant preservation (well-formedness is inductive)
    nz = [z3.Implies(P['present'][i], P['cas'][i] != 0) for i in range(K)]
    obs.append(('invariant', 'stored-cas-nonzero', z3.And(nz)))
    # the counter is monotone, moves by at most 2 per command unless a client-derived token (< 2^63) pulls it up, and so stays
    # below 2^63 + 2n + 1 after n commands: no wrap-around within 2^61 commands (stated bound)
    inv = [P['cas_id'] != 0, z3.UGE(P['cas_id'], st.cas_id),
           z3.Or(z3.ULE(P['cas_id'] - st.cas_id, 2), z3.ULE(P['cas_id'], BV((1 << 63) + 1)))]
    for i in range(K):
        inv.append(z3.Implies(P['present'][i], z3.ULE(P['ts'][i], st.now)))
        inv.append(z3.Implies(P['present'][i], z3.ULT(P['cas'][i], P['cas_id'])))
    # A failure of this obligation is an *inductive gap* (the one-step argument no longer covers all histories),
    # not by itself a violation: the property-level alarm comes from the bounded history check.
    obs.append(('invariant', 'GAP:counter-monotone-and-ahead-of-every-token', z3.And(inv)))
    return obs


def pre_assumptions(st, K):
    """C02's counter invariant, part of every pre-state: every stored CAS is below the counter"""
    return inv_cas(st.present, st.cas, st.cas_id, K)


def run_store_checks(ck, cmds, aspects, K=2, regions_fn=None, tier='quick', variants=('none', 'random')):
    """both store variants the server can be started with: the plain MemoryStore and the same behind RandomPolicy with its
    limit out of reach (the properties are stated for both)"""
    for v in variants:
        _run_store_checks(ck, cmds, aspects, K, regions_fn, tier, v)


def _run_store_checks(ck, cmds, aspects, K, regions_fn, tier, variant):
    E = ck.E
    st = St(K)
    inp = In()
    ck.bounds.update({'keys': K, 'step': 'one command from an arbitrary well-formed state (inductive step)',
                      'values': 'uninterpreted byte strings of unbounded length', 'integers': 'full 32/64-bit ranges'})
    ck.assumptions += ['state invariant assumed of the pre-state and checked of every post-state: stored CAS != 0 and < counter, '
                       'timestamps <= clock, clock < 2^40, counter < 2^62',
                       'the clock does not tick inside one command (ticks between commands are arbitrary)',
                       'the counter is monotone and grows by at most 2 per command above 2^63 (checked inductive): claim for fewer than 2^61 commands',
                       'DashMap modelled as a finite map with per-call atomicity; byte strings as uninterpreted terms']
    replay_budget = 30 if tier == 'quick' else 10 ** 6
    nrep = 0
    for cmd in cmds:
        for j in range(K if tier != 'quick' or cmd in ('flush',) else 1):
            extra = pre_assumptions(st, K) + handler_input_constraints(cmd, inp)
            if variant == 'random':
                from . import policy_checks as PC
                L = PC.L
                extra += [z3.ULT(L, 1 << 62), z3.ULE(st.usage, L), z3.UGE(L - st.usage, BV(1 << 33))]
                ss = summarize(E, cmd, j, K, st, inp, 'random', L, extra_assume=extra, ck=ck)
                tag = 'random-policy:'
            else:
                L = None
                ss = summarize(E, cmd, j, K, st, inp, extra_assume=extra, ck=ck)
                tag = ''
            for s in ss:
                if s.status not in ('ok', 'panic'):
                    continue
                ck.cover(f'{cmd}:{"ok" if s.rkind == 0 else "panic" if s.rkind == R_PANIC else "err%d" % s.rkind}', True)
                ck.sample({'cmd': cmd, 'key': j, 'result': s.rkind, 'shared_steps': [e[0] for e in s.events if e[0].startswith(('map.', 'atomic.'))]})
                small = [z3.ULE(st.cas_id, 1000), z3.ULE(st.now, 100000)] + [z3.ULE(vlen(v), 16) for v in st.val + [inp.val]]
                R = regions_fn(cmd, j, st, inp, s) if regions_fn else {}

                def on_w(m, where, s=s, cmd=cmd, j=j, L=L):
                    return replay_witness(ck, m, st, inp, cmd, j, s, L)
                for aspect, name, phi in obligations_for(cmd, j, st, inp, s, K):
                    if aspect not in aspects:
                        continue
                    if name.startswith('GAP:'):
                        ck.inductive(f'{tag}{cmd}:{name[4:]}', s.pc, phi)
                    else:
                        ck.obligation(f'{tag}{cmd}:{name}', s.pc, phi, R, on_w, small)
                # translator validation of this path
                if nrep < replay_budget:
                    m = ck.witness(s.pc, small)
                    if m is not None and m != 'unknown':
                        nrep += 1
                        okp, desc, scen = replay_witness(ck, m, st, inp, cmd, j, s, L)
                        if okp:
                            ck.replays_ok += 1
                        else:
                            ck.replays_bad += 1
                            p = ck.save_scenario('translator-validation', scen)
                            ck.inconclusive.append(f'translator validation: native run of a {cmd} path differs from the engine: {desc} ({p})')


def replay_witness(ck, m, st, inp, cmd, j, s, L=None):
    """-> (reproduced?, description, scenario): the native run must do exactly what the engine's path predicts"""
    try:
        if L is not None:
            sc, nsetup, C = SR.scenario(m, st, inp, cmd, j, policy='random', memory_limit=mval(m, L))
        else:
            sc, nsetup, C = SR.scenario(m, st, inp, cmd, j)
        pred, pprobes = SR.predicted(m, st, s, C)
    except ValueError as ex:
        return None, f'cannot concretise witness: {ex}', None
    out = ck.replay([sc])[0]
    obs, oprobes = SR.observe(out, nsetup, st.K)
    okp, diff = SR.matches(pred, pprobes, obs, oprobes, cmd)
    pre = []
    for i in range(st.K):
        if mval(m, st.present[i]):
            pre.append(f"key{i}: cas={mval(m, st.cas[i])} flags={mval(m, st.flags[i])} ttl={mval(m, st.ttl[i])} stored_at={mval(m, st.ts[i])}")
        else:
            pre.append(f'key{i}: absent')
    desc = ('' if L is None else f'[--eviction-policy random, limit {mval(m, L)}] ') + (f"{cmd} key{j} at t={mval(m, st.now)} (cas={mval(m, inp.cas)} flags={mval(m, inp.flags)} ttl={mval(m, inp.ttl)} "
            f"delta={mval(m, inp.delta)} init={mval(m, inp.init)}; counter={mval(m, st.cas_id)}) on [{'; '.join(pre)}] -> "
            f"kind {obs['kind']} cas {obs.get('cas')} probes {[(p.get('vis'), p.get('cas'), p.get('flags'), p.get('value')) for p in oprobes]}")
    if not okp:
        return None, desc + ' | native differs from engine: ' + diff, sc
    return True, desc, sc

"""Shared driver of the schedule-exploration checks C03 / C04 / C16: explore all interleavings of a small client program,
decide linearizability per (schedule, path), classify witnesses by role-based regions over the schedule, replay natively by
forcing real threads through the same order of store steps (replay/src/sched.rs + cfg(memcrs_verif) yield points)."""
import struct, z3
from .common import *
from .conc_common import *
from .world import St
from .store_checks import pre_assumptions
from . import store_replay as SR
from .wire import frame, parse_response

MUT_STEPS = ('map.insert', 'map.remove', 'map.remove_if', 'map.clear', 'map.alter_all', 'map.get_mut')


def sched_of(events):
    return [(e[1], e[2]) for e in events if e[0] == 'sched']


def classify(progs, sched, st=None, obs=None, events=None):
    """role-based regions over the schedule (which window of which command another client's mutation fell into)
    -> {region: z3 predicate over the request fields}.  The lookup-then-store window is a known defect only for commands that
    carry no CAS, or a CAS that was not the item's CAS when the episode started (a guessed future token can make the conditional
    store succeed on a stale read): with the item's current CAS the store is conditional and must stay safe."""
    regs = {}

    def rejected(t, cmd):
        # a command that was refused changed nothing: under a race its error code may be the one of the state it looked up
        # (e.g. 'key exists' from the conditional store where a sequential run would say 'non-numeric'); same known window
        if obs is None:
            return z3.BoolVal(False)
        return z3.BoolVal(any(o.cmd == cmd and o.kind != 0 for o in obs[t]))

    def add(name, pred=None):
        pred = z3.BoolVal(True) if pred is None else pred
        regs[name] = z3.Or(regs[name], pred) if name in regs else pred
    n = len(sched)
    for t, prog in enumerate(progs):
        mine = [i for i, (tid, op) in enumerate(sched) if tid == t]
        # read-modify-write window: this client's lookup (map.get) ... its later store step, with a foreign mutation between
        for a in mine:
            if sched[a][1] != 'map.get':
                continue
            for b in mine:
                if b <= a or sched[b][1] not in ('atomic.fetch_add', 'map.get_mut', 'map.insert'):
                    continue
                if any(sched[k][0] != t and sched[k][1] in MUT_STEPS + ('atomic.fetch_add',) for k in range(a + 1, b)):
                    for cmd, inp in prog:
                        if cmd in ('add', 'replace', 'append', 'prepend', 'increment', 'decrement'):
                            add('rmw-window:' + cmd, z3.Or(inp.cas == 0, inp.cas != st.cas[0], z3.Not(st.live(0)), rejected(t, cmd)) if st is not None else inp.cas == 0)
                # a foreign mutation after this client's store decision but before its insert also breaks the read-modify-write
            # lookup ... foreign mutation ... (no own store: the command failed on stale information)
            # only while this command is still running (before its last step) and only if it never stored: a foreign mutation
            # after the command has completed, or next to a store of its own (handled above), is not this window
            own_store = [b for b in mine if b > a and sched[b][1] in ('map.insert', 'map.get_mut')]
            later_foreign = (not own_store) and any(sched[k][0] != t and sched[k][1] in MUT_STEPS for k in range(a + 1, mine[-1]))
            if later_foreign:
                for cmd, inp in prog:
                    if cmd in ('add', 'replace', 'append', 'prepend', 'increment', 'decrement'):
                        add('rmw-window:' + cmd, z3.Or(inp.cas == 0, inp.cas != st.cas[0], z3.Not(st.live(0)), rejected(t, cmd)) if st is not None else inp.cas == 0)
        # conditional store on an absent key: get_mut (nothing there) ... foreign step ... insert
        # outcome of this thread's k-th map.get_mut step: 'miss' only when the key really was absent
        outcomes = [e[3] for e in (events or []) if e[0] == 'map.get_mut' and e[1] == t and len(e) > 3]
        nth = -1
        for a in mine:
            if sched[a][1] != 'map.get_mut':
                continue
            nth += 1
            if events is not None and (nth >= len(outcomes) or outcomes[nth] != 'miss'):
                continue       # the known window is "the key was absent at the lookup"; anything else is not it
            nxt = [b for b in mine if b > a]
            if nxt and sched[nxt[0]][1] in ('map.insert', 'atomic.fetch_max', 'atomic.fetch_add'):
                ins = [b for b in nxt if sched[b][1] == 'map.insert']
                if ins and any(sched[k][0] != t for k in range(a + 1, ins[0])):
                    add('cas-store-absent-window')
        # unconditional store: token drawn (fetch_add) ... foreign store ... insert  (benign with relational tokens, listed for completeness)
    return regs


def scenario(m, st, progs, sched, policy=None, memory_limit=None):
    C = SR.Concretizer(m)
    setup = SR.setup_steps(m, st, C)
    threads = []
    for prog in progs:
        threads.append([SR.cmd_frame(cmd, 0, C, m, inp).hex() for cmd, inp in prog])
    sc = {'kind': 'sched', 'policy': policy or 'none', 'item_limit': 1 << 20, 'setup': setup, 'clock': mval(m, st.now),
          'threads': threads, 'schedule': [[t, op] for t, op in sched], 'probe': [frame(0x00, SR.key_bytes(0)).hex()]}
    if policy:
        sc['memory_limit'] = memory_limit
    return sc, C


def predicted(m, progs, obs, final, C):
    out = []
    for row in obs:
        r = []
        for o in row:
            d = {'kind': o.kind}
            if o.kind == 0:
                if o.rcas is not None and o.cmd not in ('delete',):
                    d['cas'] = mval(m, o.rcas)
                if o.rnum is not None:
                    d['num'] = mval(m, o.rnum)
                if o.cmd == 'get':
                    d['value'] = C.val(o.rval)
                    d['flags'] = mval(m, o.rflags)
            r.append(d)
        out.append(r)
    fv = mval(m, final[0])
    fin = None
    if fv:
        fin = (C.val(final[1]), mval(m, final[2]), mval(m, final[3]))
    return out, fin


def native_obs(res):
    out = []
    for th in res['threads']:
        r = []
        for c in th:
            if 'panic' in c:
                r.append({'kind': R_PANIC, 'panic': c['panic']})
                continue
            if c.get('response') is None:
                r.append({'kind': None})
                continue
            p = parse_response(bytes.fromhex(c['response']))
            d = {'kind': p['status'], 'cas': p['cas'], 'resp': p}
            r.append(d)
        out.append(r)
    fin = None
    pr = res['probe'][0]
    if pr.get('response'):
        p = parse_response(bytes.fromhex(pr['response']))
        if p['status'] == 0:
            fin = (p['value'], struct.unpack('>I', p['extras'])[0], p['cas'])
    return out, fin


def compare(pred, pfin, nat, nfin, progs):
    diffs = []
    for t, (pr, nr) in enumerate(zip(pred, nat)):
        for i, (a, b) in enumerate(zip(pr, nr)):
            cmd = progs[t][i][0]
            if a['kind'] != b['kind']:
                diffs.append(f"client{t} {cmd}: result predicted {a['kind']} native {b['kind']} {b.get('panic', '')}")
                continue
            if a['kind'] == 0:
                if 'cas' in a and cmd != 'get' and a['cas'] != b.get('cas'):
                    diffs.append(f"client{t} {cmd}: cas predicted {a['cas']} native {b.get('cas')}")
                if cmd == 'get':
                    r = b['resp']
                    if r['value'] != a['value'] or r['cas'] != a['cas']:
                        diffs.append(f"client{t} get: predicted {a['value']!r}/cas {a['cas']} native {r['value']!r}/cas {r['cas']}")
                if 'num' in a:
                    r = b['resp']
                    nv = struct.unpack('>Q', r['value'])[0] if len(r['value']) == 8 else None
                    if nv != a['num']:
                        diffs.append(f"client{t} {cmd}: value predicted {a['num']} native {nv}")
    if pfin != nfin:
        diffs.append(f'final content predicted {pfin} native {nfin}')
    return diffs


def describe(m, st, progs, sched, nat, nfin, C):
    pre = 'absent'
    if mval(m, st.present[0]):
        pre = f"value {C.val(st.val[0])!r} cas {mval(m, st.cas[0])} ttl {mval(m, st.ttl[0])} stored at {mval(m, st.ts[0])}"
    cl = []
    for t, prog in enumerate(progs):
        parts = []
        for i, (cmd, inp) in enumerate(prog):
            a = ''
            if cmd in ('set', 'add', 'replace', 'append', 'prepend'):
                a = f" {C.val(inp.val)!r} cas={mval(m, inp.cas)}"
            elif cmd in ('increment', 'decrement'):
                a = f" delta={mval(m, inp.delta)} init={mval(m, inp.init)} cas={mval(m, inp.cas)}"
            elif cmd == 'delete':
                a = f" cas={mval(m, inp.cas)}"
            r = nat[t][i]
            res = 'ok' if r['kind'] == 0 else ('panic' if r['kind'] == R_PANIC else f"err 0x{r['kind']:02x}" if isinstance(r['kind'], int) else str(r['kind']))
            if r['kind'] == 0 and 'resp' in r:
                if cmd == 'get':
                    res += f" {r['resp']['value']!r}/cas {r['resp']['cas']}"
                elif cmd in ('increment', 'decrement'):
                    res += f" value {struct.unpack('>Q', r['resp']['value'])[0]} cas {r['cas']}"
                elif cmd != 'delete':
                    res += f" cas {r['cas']}"
            parts.append(f'{cmd}{a} -> {res}')
        cl.append(f'client{t}: ' + ', '.join(parts))
    return f"key at t={mval(m, st.now)}: {pre}; " + ' | '.join(cl) + f"; steps {' '.join(f'{t}:{op}' for t, op in sched)}; afterwards a get returns {nfin}"


def explore_program(ck, names, constraints=None, allow_stale=False, policy=None, memory_limit=None, extra_obligations=None, known_regions=True, budget_s=None, check_lin=True,
                    frontier_depth=None, prefixes=None, regions_fn=None):
    """names: [['get'], ['set']] ... ; constraints(progs, st) -> list of z3 assumptions"""
    E = ck.E
    st = St(1)
    progs = [[(c, In(f'_{i}{j}')) for j, c in enumerate(p)] for i, p in enumerate(names)]

    def h(E):
        for c in st.wellformed() + pre_assumptions(st, 1):
            E.assume(c)
        if not allow_stale:
            E.assume(z3.Or(z3.Not(st.present[0]), st.live(0)))
        for p in progs:
            for cmd, inp in p:
                for c in inp.wellformed():
                    E.assume(c)
                if cmd in ('append', 'prepend'):
                    E.assume(inp.flags == 0, inp.ttl == 0)
        if constraints:
            for c in constraints(progs, st):
                E.assume(c)
        w, obs, final, threads = run_concurrent(E, st, progs, policy=policy, memory_limit=memory_limit)
        if policy:
            final = final + (w.usage(),)
        return obs, final, sched_of(E.events), [e for e in E.events if e[0] in ('deadlock', 'self-deadlock')]
    label = ' || '.join('[' + ','.join(p) + ']' for p in names)
    small = [z3.ULE(st.cas_id, 100), z3.ULE(st.now, 100000), z3.ULE(vlen(st.val[0]), 8)] + \
            [z3.ULE(vlen(inp.val), 8) for p in progs for _, inp in p]
    if frontier_depth is not None:
        return ck.E.frontier(h, frontier_depth)
    kw = {}
    if budget_s:
        kw['budget_s'] = budget_s
    if prefixes is not None:
        kw['prefixes'] = prefixes
    res = ck.explore(h, **kw)
    nval = 0
    for p in res:
        if p.status == 'inconclusive' and 'unwinding bound' in str(p.info):
            # a loop that does not end within its bound while the other clients have finished or are parked: livelock candidate
            if p.info in ck.inconclusive:
                ck.inconclusive.remove(p.info)
            sched = sched_of(p.events)

            def on_live(m, where, sched=sched):
                try:
                    sc, C = scenario(m, st, progs, sched, policy, mval(m, memory_limit) if memory_limit is not None else None)
                except ValueError as ex:
                    return None, f'cannot concretise: {ex}', None
                sc['watchdog_ms'] = 3000
                out = ck.replay([sc])[0]
                desc = f"{label} with steps {' '.join(f'{t}:{op}' for t, op in sched)} (then free running), limit {mval(m, memory_limit) if memory_limit is not None else '-'}: " \
                       f"engine: {p.info}; native: " + (f"client(s) {out['hung']} never return (3 s watchdog)" if out.get('hung') else 'all commands returned')
                if not out.get('hung') and not policy:
                    # the loop may sit between two yield points (atomics without a hook in between): repeat the same commands
                    # free running - thread 0 re-arms the key (delete) before each round, a request CAS moves on by 2^20 per round
                    from .wire import frame
                    from . import store_replay as SR
                    sc2 = dict(sc)
                    sc2.update({'stress_rounds': 100000, 'rearm': [frame(0x04, SR.key_bytes(0)).hex()], 'cas_step': 1 << 20, 'watchdog_ms': 12000})
                    try:
                        out2 = ck.replay([sc2], timeout=60)[0]
                    except Exception:
                        out2 = {}
                    if out2.get('hung'):
                        return True, desc + f"; repeated free running (up to 200000 rounds, key re-armed by a delete before each round): client(s) {out2['hung']} never return (12 s watchdog)", sc2
                return (True if out.get('hung') else None), desc, sc
            ck.obligation(f'{label}: every command returns (no loop spins for ever)', p.pc, z3.BoolVal(False), {}, on_live, small)
            continue
        if p.status == 'deadlock':
            ck.obligation(f'{label}: no command blocks on its own guard', p.pc, z3.BoolVal(False), {}, None, [])
            continue
        if p.status != 'ok':
            continue
        obs, final, sched, dl = p.out
        R = classify(progs, sched, st, obs, p.events) if known_regions else {}
        if regions_fn is not None:
            R = dict(R)
            R.update(regions_fn(progs, sched, st, obs, p.events))

        def on_w(m, where, obs=obs, final=final, sched=sched):
            try:
                sc, C = scenario(m, st, progs, sched, policy, mval(m, memory_limit) if memory_limit is not None else None)
                pred, pfin = predicted(m, progs, obs, final, C)
            except ValueError as ex:
                return None, f'cannot concretise: {ex}', None
            out = ck.replay([sc])[0]
            nat, nfin = native_obs(out)
            if out.get('hung'):
                return None, f"native: client(s) {out['hung']} never returned on schedule {sched}", sc
            desc = describe(m, st, progs, sched, nat, nfin, C)
            if out['schedule_mismatch']:
                desc += f" (step labels differ natively: {out['schedule_mismatch'][:1]})"
            if out.get('hung'):
                return None, desc + f" | native: client(s) {out['hung']} never returned", sc
            # a thread that finishes before all of its planned steps were seen (trailing steps without a native yield point, e.g.
            # code added by a change) is not fatal: what counts is that nobody got stuck and that the native outcomes are the predicted ones
            if out['steps_done'] != out['steps_planned'] and not out['stuck']:
                desc += f" (native run made {out['steps_done']} of the {out['steps_planned']} planned steps at yield points)"
            if out['stuck']:
                return None, desc + f" | native threads did not follow the schedule: {out['schedule_mismatch'][:2]} stuck={out['stuck']} steps {out['steps_done']}/{out['steps_planned']}", sc
            diffs = compare(pred, pfin, nat, nfin, progs)
            if diffs:
                return None, desc + ' | native differs from engine: ' + '; '.join(diffs), sc
            return True, desc, sc
        if dl:
            ck.obligation(f'{label}: some client can always take a step', p.pc, z3.BoolVal(False), {}, on_w, small)
            continue
        if any(o.kind == 'blocked' for row in obs for o in row):
            ck.obligation(f'{label}: every command returns', p.pc, z3.BoolVal(False), {}, on_w, small)
            continue
        if check_lin:
            phi = linearizable(st, progs, obs, final)
            ck.obligation(f'{label}: responses and final content are those of a one-at-a-time order', p.pc, phi, R, on_w, small)
        else:
            ck.obligations += 1
            ck.discharged += 1
        if extra_obligations:
            for name, f in extra_obligations:
                ck.obligation(f'{label}: {name}', p.pc, f(progs, obs, final, st), R, on_w, small)
        ck.cover(f'{label}: explored', True)
        if len(sched) and any(sched[i][0] != sched[i + 1][0] for i in range(len(sched) - 1)):
            ck.cover(f'{label}: interleaved schedule', True)
        if len(ck.samples) < 8:
            ck.sample({'program': label, 'schedule': [f'{t}:{op}' for t, op in sched], 'results': [[o.kind for o in row] for row in obs]})
        if nval < 2:
            m = ck.witness(p.pc, small)
            if m is not None and m != 'unknown':
                nval += 1
                r, desc, sc = on_w(m, None)
                if r:
                    ck.replays_ok += 1
                else:
                    ck.replays_bad += 1
                    pth = ck.save_scenario('translator-validation', sc)
                    ck.inconclusive.append(f'translator validation (schedule replay): {desc} ({pth})')
    return res

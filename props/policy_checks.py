"""Random eviction policy: accounting (C15), stored-bytes bound and termination (C14), policy equivalence (C20a)."""
import z3
from mirse.values import *
from mirse.models.bytesm import vlen, visnum, vutf8
from mirse.models.dashmap import KeyTok
from .common import mval, same
from .store_common import *
from .world import St, World, mk, fld, record
from . import bmc
from . import store_replay as SR

L = z3.BitVec('mem_limit', 64)
HDR = 24     # size_of::<CacheMetaData>()
STORES = ['set', 'add', 'replace', 'append', 'prepend', 'increment', 'decrement']


def reclen(v):
    return BV(HDR) + vlen(v)


def total_size(present, val, K):
    n = BV(0)
    for i in range(K):
        n = n + z3.If(present[i], reclen(val[i]), BV(0))
    return n


def evicted_keys(s):
    """slots removed by the eviction sweep on this path (map.remove events that follow a map.iter)"""
    out = []
    sweeping = False
    for e in s.events:
        if e[0] == 'map.iter':
            sweeping = True
        elif e[0] == 'map.remove' and sweeping:
            out.append(e[2])
        elif e[0] in ('map.len',):
            pass
        elif e[0] in ('map.insert', 'map.get_mut', 'map.get'):
            sweeping = False
    return out


def no_overflow(st, inp, K):
    cs = [z3.ULT(L, 1 << 62), z3.ULT(st.usage, 1 << 62)]
    return cs


def handler_constraints(cmd, inp):
    if cmd in ('append', 'prepend'):
        return [inp.flags == 0, inp.ttl == 0]
    return []


def replay_usage(ck, m, st, inp, cmd, j, s):
    """native: build the pre-state by one insert per present key (accounting exact), run the command, read the hook"""
    try:
        sc, nsetup, C = SR.scenario(m, st, inp, cmd, j, policy='random', memory_limit=mval(m, L), probes=True)
        pred, pprobes = SR.predicted(m, st, s, C)
    except ValueError as ex:
        return None, f'cannot concretise: {ex}', None
    out = ck.replay([sc])[0]
    c = out['steps'][nsetup]
    obs, oprobes = SR.observe(out, nsetup, st.K)
    pre_usage = out['steps'][nsetup - 1].get('usage') if nsetup >= 2 else 0
    if nsetup >= 2:
        # last setup step is set_cas_id (no usage field): take the step before
        for k in range(nsetup - 1, -1, -1):
            if 'usage' in out['steps'][k]:
                pre_usage = out['steps'][k]['usage']
                break
    desc = (f"limit {mval(m, L)}: {cmd} key{j} (value {C.val(inp.val)!r}, cas {mval(m, inp.cas)}, ttl {mval(m, inp.ttl)}) at t={mval(m, st.now)} on "
            f"[{'; '.join('key%d=%r ttl=%d@%d' % (i, C.val(st.val[i]), mval(m, st.ttl[i]), mval(m, st.ts[i])) if mval(m, st.present[i]) else 'key%d absent' % i for i in range(st.K))}] "
            f"accounted {pre_usage} -> {c.get('usage')} ; stored afterwards: {[(p.get('value')) for p in oprobes]}")
    diffs = []
    if c.get('usage') != mval(m, s.post['usage']):
        diffs.append(f"accounted usage predicted {mval(m, s.post['usage'])} native {c.get('usage')}")
    if pre_usage != mval(m, st.usage):
        diffs.append(f"pre-state usage {mval(m, st.usage)} is not what the set-up reaches ({pre_usage})")
    okp, d2 = SR.matches(pred, pprobes, obs, oprobes, cmd)
    if not okp:
        diffs.append(d2)
    if diffs:
        return None, desc + ' | native differs from engine: ' + '; '.join(diffs), sc
    return True, desc, sc


def hit_empty_reset(s):
    """the "store is empty" branch of the sweep: a map.len immediately followed by an atomic.fetch_sub"""
    ev = [e[0] for e in s.events]
    return any(a == 'map.len' and b in ('atomic.fetch_sub', 'atomic.store') for a, b in zip(ev, ev[1:]))


def c15_regions(cmd, j, st, inp, s):
    stores_onto_existing = z3.BoolVal(cmd in STORES and s.rkind == R_OK) if False else None
    ev = [e[0] for e in s.events]
    lazy = z3.And(st.present[j], z3.Not(st.live(j))) if cmd not in ('delete', 'flush', 'set') else z3.BoolVal(False)
    hit_empty_reset = z3.BoolVal(False)
    # the "store is empty" branch of the sweep: a map.len immediately followed by an atomic.fetch_sub
    for a, b in zip(ev, ev[1:]):
        if a == 'map.len' and b in ('atomic.fetch_sub', 'atomic.store'):
            hit_empty_reset = z3.BoolVal(True)
    return {
        'overwrite-double-count': z3.And(z3.BoolVal(cmd in STORES and s.rkind == R_OK), st.present[j], z3.Not(lazy)),
        'failed-store-counted': z3.BoolVal(cmd in STORES and s.rkind == R_EXISTS and 'atomic.fetch_add' in ev),
        'flush-not-accounted': z3.BoolVal(cmd == 'flush'),
        'expiry-not-accounted': lazy,
        'reset-on-empty-store': hit_empty_reset,
    }


def run_c15_step(ck, tier, K=2):
    E = ck.E
    E.loop_bound = K + 3
    st = St(K)
    inp = In()
    cmds = CMDS
    nrep = 0
    for cmd in cmds:
        for j in range(1 if (tier == 'quick' and cmd != 'flush') else (K if cmd != 'flush' else 1)):
            # C15's own premise: the stored data fits under the limit (such states are reachable by one insert per key)
            acc = [st.usage == total_size(st.present, st.val, K), z3.ULE(st.usage, L)] + no_overflow(st, inp, K) + handler_constraints(cmd, inp)
            acc += [z3.Not(visnum(inp.val))]
            ss = summarize(E, cmd, j, K, st, inp, 'random', L, extra_assume=acc, ck=ck)
            for s in ss:
                if s.status != 'ok':
                    continue
                P = s.post
                R = c15_regions(cmd, j, st, inp, s)
                small = [z3.ULE(L, 4096), z3.ULE(st.now, 100000), z3.ULE(st.cas_id, 100)] + [z3.ULE(vlen(v), 64) for v in st.val + [inp.val]]
                # replayable witnesses: stored values non-numeric (their concrete length is the model's vlen)
                pcx = list(s.pc) + [z3.Not(visnum(v)) for v in st.val]

                def on_w(m, where, s=s, cmd=cmd, j=j):
                    return replay_usage(ck, m, st, inp, cmd, j, s)
                tot1 = total_size(P['present'], P['val'], K)
                # the known accounting defects all make the counter too HIGH (or wrap it on the empty-store reset);
                # a counter that falls BELOW the stored total is a different defect and has no known region
                Rlow = {k: v for k, v in R.items() if k == 'reset-on-empty-store'}
                ck.obligation(f'{cmd}: accounted usage never falls below the stored total', pcx, z3.UGE(P['usage'], tot1), Rlow, on_w, small)
                ck.obligation(f'{cmd}: accounted usage never exceeds the stored total', pcx, z3.ULE(P['usage'], tot1), R, on_w, small)
                ck.cover(f'{cmd}:{s.rkind}', True)
                ck.sample({'cmd': cmd, 'result': s.rkind, 'evicted': evicted_keys(s), 'steps': [e[0] for e in s.events if e[0].startswith(('map.', 'atomic.'))][:12]})
                if nrep < (20 if tier == 'quick' else 10 ** 6):
                    m = ck.witness(pcx, small)
                    if m is not None and m != 'unknown':
                        nrep += 1
                        r, desc, sc = replay_usage(ck, m, st, inp, cmd, j, s)
                        if r:
                            ck.replays_ok += 1
                        else:
                            ck.replays_bad += 1
                            p = ck.save_scenario('translator-validation', sc)
                            ck.inconclusive.append('translator validation (policy): ' + desc + f' ({p})')


def run_c14_step(ck, tier, K=2):
    """one step from any state whose accounted usage is not below the stored total: afterwards the stored total is at most
    L + the record just written (stores) / has not grown (other commands), usage still covers it, the sweep terminates"""
    E = ck.E
    E.loop_bound = K + 3
    st = St(K)
    inp = In()
    nrep = 0
    for cmd in CMDS:
        for j in range(1 if (tier == 'quick' and cmd != 'flush') else (K if cmd != 'flush' else 1)):
            pre = [z3.ULE(total_size(st.present, st.val, K), st.usage)] + no_overflow(st, inp, K) + handler_constraints(cmd, inp)
            ss = summarize(E, cmd, j, K, st, inp, 'random', L, extra_assume=pre, ck=ck)
            for s in ss:
                if s.status == 'inconclusive':
                    continue
                if s.status != 'ok':
                    continue
                P = s.post
                small = [z3.ULE(L, 4096), z3.ULE(st.now, 100000), z3.ULE(st.cas_id, 100)] + [z3.ULE(vlen(v), 64) for v in st.val + [inp.val]]
                tot0 = total_size(st.present, st.val, K)
                tot1 = total_size(P['present'], P['val'], K)
                pcx = list(s.pc)
                stored = cmd in STORES and s.rkind == R_OK

                def on_w(m, where, s=s, cmd=cmd, j=j):
                    return None, 'one-step witness from a non-reachable accounting state is not replayed (see bmc)', None
                if stored:
                    ck.obligation(f'{cmd}: stored total <= limit + the record just written', pcx,
                                  z3.ULE(tot1, L + reclen(P['val'][j])), {}, on_w, small)
                    ck.obligation(f'{cmd}: the record being written survives its own eviction sweep', pcx, P['present'][j], {}, on_w, small)
                else:
                    ck.obligation(f'{cmd}: stored total does not grow', pcx, z3.ULE(tot1, tot0), {}, on_w, small)
                ck.inductive(f'{cmd}: accounted usage still covers the stored total', pcx, z3.ULE(tot1, P['usage']))
                ev = evicted_keys(s)
                ck.cover(f'sweep evicted {len(ev)}', True)
                ck.sample({'cmd': cmd, 'result': s.rkind, 'evicted': ev})


def bmc_system(ck, K, cmds):
    def extra(cmd, inp):
        # stated bound of the history checks: values up to 4 KiB, limits below 2^40 (keeps witnesses replayable)
        return handler_constraints(cmd, inp) + [z3.Not(visnum(inp.val)), z3.ULE(vlen(inp.val), 4096)] + [z3.ULT(L, 1 << 40)]
    sysm = bmc.System(ck, K, cmds, policy='random', memory_limit=L, extra_assume=extra)
    for s in sysm.summaries:
        s.evicted = evicted_keys(s)
    return sysm


def run_c15_bmc(ck, tier, K=2):
    """behavioural form: a history whose stored data always fits under the limit never evicts a live item"""
    E = ck.E
    E.loop_bound = K + 3
    k = 3 if tier == 'quick' else 4
    cmds = ['set', 'get', 'delete', 'flush', 'append', 'increment', 'add', 'replace'] if tier != 'quick' else ['set', 'get', 'delete', 'flush', 'append']
    sysm = bmc_system(ck, K, cmds)
    tr, cs = sysm.unroll(k)
    ck.bounds['bmc'] = f'histories of {k} commands over {K} keys from the empty store under the random policy, limit and all arguments symbolic'
    fits = []
    for t in range(k + 1):
        fits.append(z3.ULE(total_size(tr.S[t].present, tr.S[t].val, K), L))
    # the data the step is about to hold must fit as well (the stored total after the step is S[t+1])
    loss = []
    for t in range(k):
        alts = []
        for n, s in enumerate(sysm.summaries):
            for i in s.evicted:
                # key i evicted while live, and it is not the key being overwritten by this very command
                if i == s.key and s.cmd in STORES:
                    continue
                alts.append(z3.And(tr.sel[t] == n, tr.S[t].live(i)))
        loss.append(z3.Or(alts) if alts else z3.BoolVal(False))
    def on_w(m, where):
        rep, desc, sc, out = sysm.replay(m, tr)
        if rep:
            desc = f'limit {mval(m, L)}: ' + desc + ' | accounted usage after each step: ' + str([c.get('usage') for c in out['steps'][:tr.k]]) + \
                ' ; entries after each step: ' + str([c.get('len') for c in out['steps'][:tr.k]])
        return rep, desc, sc
    small = [z3.ULE(L, 1024), z3.ULE(tr.S[0].now, 100)] + [z3.ULE(vlen(tr.I[t].val), 16) for t in range(k)]
    ck.cover('bmc: an eviction happened', cs + [z3.Or([z3.Or([tr.sel[t] == n for n, s in enumerate(sysm.summaries) if s.evicted]) for t in range(k)])])
    # regions: which accounting defect made the counter exceed the content (role predicates over the history)
    def some_step(pred):
        return z3.Or([pred(t) for t in range(k)])
    overwrite = some_step(lambda t: z3.And(z3.Or([tr.cmd[t] == CMD_ID[c] for c in STORES if c in cmds]), tr.rkind[t] == 0,
                                           z3.Or([z3.And(tr.key[t] == i, tr.S[t].present[i]) for i in range(K)])))
    failed = some_step(lambda t: z3.And(z3.Or([tr.cmd[t] == CMD_ID[c] for c in STORES if c in cmds]), tr.rkind[t] == R_EXISTS))
    flush = some_step(lambda t: tr.cmd[t] == CMD_ID['flush'])
    expiry = some_step(lambda t: z3.Or([z3.And(tr.key[t] == i, tr.S[t].present[i], z3.Not(tr.S[t].live(i)), tr.cmd[t] != CMD_ID['delete'], tr.cmd[t] != CMD_ID['flush']) for i in range(K)]))
    R = {'overwrite-double-count': overwrite, 'failed-store-counted': failed, 'flush-not-accounted': flush, 'expiry-not-accounted': expiry,
         'reset-on-empty-store': some_step(lambda t: z3.Or([tr.sel[t] == n for n, s in enumerate(sysm.summaries) if hit_empty_reset(s)] or [z3.BoolVal(False)]))}
    ck.obligation(f'bmc-k{k}: no live item is evicted while the stored data fits under the limit', cs + fits, z3.Not(z3.Or(loss)), R, on_w, small)
    # the known accounting defects only ever make the counter too high: after no history may it fall below the stored total
    under = [z3.ULT(tr.S[t + 1].usage, total_size(tr.S[t + 1].present, tr.S[t + 1].val, K)) for t in range(k)]
    # (one query per step; on the wide menu the fourth step is left undecided by both solvers: depth 4 is covered on a narrower menu)
    # one query per step.  On the wide thorough menu these queries are left undecided by both solvers, so the under-count side is
    # checked on the quick menu at depth 3 and on a narrower one at depth 4 (stated in the bounds)
    confs = [(k, cmds, sysm, tr, cs)] if k <= 3 else [(3, ['set', 'get', 'delete', 'flush', 'append'], None, None, None),
                                                     (4, ['set', 'get', 'delete', 'flush'], None, None, None)]
    for kk, cm, sy, trx, csx in confs:
        if sy is None:
            sy = bmc_system(ck, K, cm)
            trx, csx = sy.unroll(kk, tag=f'~u{kk}')

        def on_wu(m, where, sy=sy, trx=trx):
            rep, desc, sc, out = sy.replay(m, trx)
            return rep, f'limit {mval(m, L)}: ' + desc, sc
        smallu = [z3.ULE(L, 1024), z3.ULE(trx.S[0].now, 100)] + [z3.ULE(vlen(trx.I[t].val), 16) for t in range(kk)]
        for t in range(kk):
            ck.obligation(f'bmc-k{kk}: the accounted usage never falls below the stored total (after step {t + 1})', csx,
                          z3.Not(z3.ULT(trx.S[t + 1].usage, total_size(trx.S[t + 1].present, trx.S[t + 1].val, K))), {}, on_wu, smallu)
        ck.bounds[f'bmc-undercount-k{kk}'] = f'histories of {kk} commands from {cm} over {K} keys'
    return sysm, tr, cs


def run_c14_bmc(ck, tier, K=2):
    if tier != 'quick':
        # deeper history on a smaller command menu first (the solver's work grows with menu x depth)
        _run_c14_bmc(ck, tier, K, 5, ['set', 'delete'], 'deep')
        _run_c14_bmc(ck, tier, K, 4, ['set', 'get', 'delete', 'flush'], 'mid')
    _run_c14_bmc(ck, tier, K, 3, ['set', 'get', 'delete', 'flush', 'append'], 'wide')
    if tier != 'quick':
        _run_c14_bmc(ck, tier, K, 3, ['set', 'delete', 'increment', 'add', 'replace'], 'wide2')


def _run_c14_bmc(ck, tier, K, k, cmds, tag):
    E = ck.E
    E.loop_bound = K + 3
    sysm = bmc_system(ck, K, cmds)
    tr, cs = sysm.unroll(k)
    ck.bounds['bmc-' + tag] = f'histories of {k} commands from {cmds} over {K} keys from the empty store under the random policy; limit any u64 < 2^40 (incl. smaller than one record), values <= 4 KiB'
    bad = []
    for t in range(k):
        tot1 = total_size(tr.S[t + 1].present, tr.S[t + 1].val, K)
        stored = z3.And(z3.Or([tr.cmd[t] == CMD_ID[c] for c in STORES if c in cmds]), tr.rkind[t] == 0)
        rec = BV(0)
        for i in range(K):
            rec = z3.If(tr.key[t] == i, reclen(tr.S[t + 1].val[i]), rec)
        tot0 = total_size(tr.S[t].present, tr.S[t].val, K)
        bad.append(z3.If(stored, z3.UGT(tot1, L + rec), z3.UGT(tot1, tot0)))
        # an acknowledged store is present afterwards
        bad.append(z3.And(stored, z3.Not(z3.Or([z3.And(tr.key[t] == i, tr.S[t + 1].present[i]) for i in range(K)]))))

    def on_w(m, where):
        rep, desc, sc, out = sysm.replay(m, tr)
        return rep, f'limit {mval(m, L)}: ' + desc, sc
    small = [z3.ULE(L, 1024), z3.ULE(tr.S[0].now, 100)] + [z3.ULE(vlen(tr.I[t].val), 16) for t in range(k)]
    ck.cover('bmc: limit smaller than one record and a store succeeded',
             cs + [z3.ULT(L, 24), tr.cmd[0] == CMD_ID['set'], tr.rkind[0] == 0])
    ck.cover('bmc: an eviction happened', cs + [z3.Or([z3.Or([tr.sel[t] == n for n, s in enumerate(sysm.summaries) if s.evicted]) for t in range(k)])])
    # one query per step (the disjunction over all steps at once was left undecided by both solvers for the widest menu)
    for t in range(k):
        ck.obligation(f'bmc-k{k}-{tag}: stored total <= limit + record just written; acknowledged store present (step {t + 1})', cs,
                      z3.Not(z3.Or(bad[2 * t], bad[2 * t + 1])), {}, on_w, small)
    # translator validation: a few random histories replayed
    for seedk in range(3 if tier == 'quick' else 12):
        pick = [tr.cmd[t] == CMD_ID[cmds[(seedk + t) % len(cmds)]] for t in range(k)]
        m = ck.witness(cs + pick, small)
        if m is None or m == 'unknown':
            continue
        rep, desc, sc, out = sysm.replay(m, tr)
        if rep:
            ck.replays_ok += 1
            ck.sample({'history': desc})
        else:
            ck.replays_bad += 1
            ck.inconclusive.append('translator validation (policy history): ' + desc)

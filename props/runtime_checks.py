"""Tier 3: symbolic execution of the server construction path and of one iteration of the accept loop.

create_memcrs_server -> MemcacheStoreBuilder::from_config -> create_current_thread_server / create_threadpool_server ->
(per listener thread) MemcacheTcpServer::new -> [accept] -> get_client_config -> Client::new -> MemcacheBinaryConnection::new ->
MemcacheBinaryCodec::new, with MemcrsArgs symbolic.  Thread spawning, tokio runtime builders, sockets and core pinning are
models: a spawned closure / future is registered and then executed by the harness (listener threads) or inspected (futures).
"""
import z3
from mirse.values import *
from mirse.models import reg, reg_re
from mirse.models.bytesm import Buf, Rope
from mirse.models.tokio_io import Sock
from mirse.models.std import call_closure
from .common import mval
from .world import mk, fld

conn_limit = z3.BitVec('cfg_connection_limit', 32)
item_limit = z3.BitVec('cfg_item_size_limit', 64)
mem_limit = z3.BitVec('cfg_memory_limit', 64)
backlog = z3.BitVec('cfg_backlog', 32)
port = z3.BitVec('cfg_port', 16)


def install_models(E):
    if getattr(E, '_rt_models', False):
        return
    E._rt_models = True

    @reg(E, 'std::net::SocketAddr::new')
    def sockaddr(E, a, ctx):
        return Agg('SocketAddr', [a[0], a[1]])

    @reg(E, 'Byte::as_u64', 'byte_unit::Byte::as_u64')
    def byte_as_u64(E, a, ctx):
        v = a[0]
        v = E.load(v) if isinstance(v, Ref) else v
        return v.fields[0] if isinstance(v, Agg) else v

    @reg(E, 'get_core_ids', 'core_affinity::get_core_ids')
    def core_ids(E, a, ctx):
        return some(Agg('Vec', [Agg('CoreId', [BV(0)])]))

    @reg(E, '<Vec<CoreId> as Clone>::clone')
    def vec_clone(E, a, ctx):
        return E.load(a[0])

    @reg(E, '<Vec<CoreId> as std::ops::Index<usize>>::index')
    def vec_index(E, a, ctx):
        v = E.load(a[0]) if isinstance(a[0], Ref) else a[0]
        return Ref(E.alloc(v.fields[0]))

    @reg(E, 'set_for_current', 'core_affinity::set_for_current')
    def set_for_current(E, a, ctx):
        return E.fresh('pinned', 'bool')

    @reg(E, 'Thread::id', 'current', 'std::thread::current')
    def thread_misc(E, a, ctx):
        return Opaque('thread')

    @reg(E, 'std::thread::spawn')
    def thread_spawn(E, a, ctx):
        E.rt['threads'].append(a[0])
        E.events.append(('thread.spawn',))
        return Opaque('JoinHandle')

    @reg_re(E, r'^tokio::runtime::Builder::(new_current_thread|new_multi_thread)$')
    def builder_new(E, a, ctx):
        kind = 'current_thread' if 'current' in ctx.callee else 'multi_thread'
        return Agg('RtBuilder', [Opaque(kind), None])

    @reg_re(E, r'^tokio::runtime::Builder::(thread_name_fn|enable_all|worker_threads|max_blocking_threads)$')
    def builder_opt(E, a, ctx):
        b = a[0]
        if isinstance(b, Ref):
            if ctx.callee.split('::')[-1].startswith('worker_threads'):
                v = E.load(b)
                E.store(b, Agg('RtBuilder', [v.fields[0], a[1]]))
            return b
        return b

    @reg(E, 'tokio::runtime::Builder::build')
    def builder_build(E, a, ctx):
        b = E.load(a[0]) if isinstance(a[0], Ref) else a[0]
        rt = Agg('Runtime', [b.fields[0], b.fields[1], len(E.rt['runtimes'])])
        E.rt['runtimes'].append(rt)
        return ok(rt)

    @reg(E, 'Runtime::block_on', 'tokio::runtime::Runtime::block_on')
    def block_on(E, a, ctx):
        rt = E.load(a[0]) if isinstance(a[0], Ref) else a[0]
        E.rt['block_on'].append((rt, a[1]))
        return ok(UNIT)

    @reg(E, 'Runtime::spawn', 'tokio::runtime::Runtime::spawn')
    def rt_spawn(E, a, ctx):
        rt = E.load(a[0]) if isinstance(a[0], Ref) else a[0]
        E.rt['rt_spawn'].append((rt, a[1]))
        return Opaque('JoinHandle')

    def reset(E):
        E.rt = {'threads': [], 'runtimes': [], 'block_on': [], 'rt_spawn': []}
    E.hooks.setdefault('reset', []).append(reset)
    reset(E)


def args_value(E, runtime_type, policy, threads):
    rt_enum = Enum('RuntimeType', dict(E.enums['RuntimeType'])[runtime_type])
    pol = Enum('EvictionPolicy', dict(E.enums['EvictionPolicy'])[policy])
    return mk(E, 'MemcrsArgs', port=port, connection_limit=conn_limit, backlog_limit=backlog, memory_limit=mem_limit,
              item_size_limit=Agg('Byte', [item_limit]), threads=BV(threads), verbose=BV(0, 8), listen_address=Opaque('ip'),
              runtime_type=rt_enum, eviction_policy=pol)


def server_of_future(E, fut):
    """the MemcacheTcpServer a `run` future (or the async block wrapping it) was created for"""
    v = fut
    seen = 0
    while seen < 6:
        seen += 1
        if isinstance(v, Coro):
            if not v.upvars:
                return None
            v = v.upvars[0]
            continue
        if isinstance(v, Ref):
            v = E.load(v)
            continue
        if isinstance(v, Agg) and v.ty == 'MemcacheTcpServer':
            return v
        return None
    return None


def run_plumbing(ck, tier, only=None):
    E = ck.E
    install_models(E)
    create = E.fn_named('create_memcrs_server')
    E.loop_bound = 8
    for runtime_type in ('CurrentThread', 'MultiThread'):
        for policy in ('None', 'Random'):
            for threads in ((1, 2, 3) if tier != 'quick' else (1, 2)):
                def h(E, runtime_type=runtime_type, policy=policy, threads=threads):
                    E.assume(z3.ULE(item_limit, 1 << 30), z3.UGE(item_limit, 1024))
                    timer = Ref(E.alloc(Agg('SystemTimer', [BV(0)])))
                    E.call(create, [args_value(E, runtime_type, policy, threads), timer])
                    servers = []
                    # listener threads of the current-thread mode: run their closures now
                    for clo in list(E.rt['threads']):
                        f = E.fns[clo.ty[8:]]
                        E.call(f, [clo])
                    for rtm, fut in E.rt['block_on'] + E.rt['rt_spawn']:
                        servers.append((rtm, server_of_future(E, fut)))
                    facts = {'n': len(servers), 'all': all(s is not None for _, s in servers), 'cfg': [], 'stores': set(), 'sems': set(),
                             'permits': BV(0), 'top': None, 'top_limit': None}
                    if facts['all']:
                        for rtm, s in servers:
                            cfg = fld(E, s, 'MemcacheTcpServer', 'config')
                            facts['cfg'].append(fld(E, cfg, 'MemcacheServerConfig', 'item_memory_limit') == z3.Extract(31, 0, item_limit))
                            facts['cfg'].append(fld(E, cfg, 'MemcacheServerConfig', 'connection_limit') == conn_limit)
                            facts['cfg'].append(fld(E, cfg, 'MemcacheServerConfig', 'listen_backlog') == backlog)
                            memc = E.load(fld(E, s, 'MemcacheTcpServer', 'storage'))
                            facts['stores'].add(fld(E, memc, 'MemcStore', 'store').cell)
                            facts['sems'].add(fld(E, s, 'MemcacheTcpServer', 'limit_connections').cell)
                        for c in facts['sems']:
                            v = E.heap[c].fields[0]
                            facts['permits'] = facts['permits'] + (z3.ZeroExt(64 - v.size(), v) if v.size() < 64 else v)
                        if len(facts['stores']) == 1:
                            top = E.heap[list(facts['stores'])[0]]
                            facts['top'] = getattr(top, 'ty', None)
                            if facts['top'] == 'RandomPolicy':
                                facts['top_limit'] = fld(E, top, 'RandomPolicy', 'memory_limit')
                    return facts
                res = ck.explore(h)
                label = f'{runtime_type}/{policy}/threads={threads}'
                for p in res:
                    if p.status != 'ok':
                        ck.inconclusive.append(f'plumbing {label}: {p.status} {p.info}')
                        continue
                    F = p.out
                    exp_listeners = threads if runtime_type == 'CurrentThread' else 1
                    ck.obligation(f'plumbing {label}: one listener per thread (current-thread) / one listener (multi-thread)', p.pc,
                                  z3.BoolVal(F['n'] == exp_listeners and F['all']), {}, None, [])
                    if not F['n'] or not F['all']:
                        continue
                    ck.obligation(f'plumbing {label}: the configured item size limit reaches every listener', p.pc, z3.And(F['cfg'][0::3]), {},
                                  lambda m, where, runtime_type=runtime_type, policy=policy: native_item_limit(ck, runtime_type, policy), [])
                    if only == 'item-limit':
                        continue
                    ck.obligation(f'plumbing {label}: configured connection limit and backlog reach every listener', p.pc,
                                  z3.And(F['cfg'][1::3] + F['cfg'][2::3]), {}, None, [])
                    ck.obligation(f'plumbing {label}: one store object is shared by every listener', p.pc, z3.BoolVal(len(F['stores']) == 1), {}, None, [])
                    want = 'RandomPolicy' if policy == 'Random' else 'MemoryStore'
                    ck.obligation(f'plumbing {label}: the selected eviction policy object is the one serving requests', p.pc,
                                  z3.BoolVal(F['top'] == want), {}, None, [])
                    if F['top_limit'] is not None:
                        ck.obligation(f'plumbing {label}: the configured memory limit reaches the policy', p.pc, F['top_limit'] == mem_limit, {}, None, [])
                    # the connection limit is per process: the permits of all semaphores together are the configured limit
                    R = {'per-thread-semaphore': z3.BoolVal(runtime_type == 'CurrentThread' and threads > 1)}

                    def on_w(m, where, threads=threads):
                        return native_limit(ck, threads)
                    ck.obligation(f'plumbing {label}: the permits of all listeners together are the configured connection limit', p.pc,
                                  F['permits'] == z3.ZeroExt(32, conn_limit), R, on_w, [])
                    ck.cover(f'plumbing {runtime_type}', True)
                    ck.sample({'config': label, 'listeners': F['n'], 'semaphores': len(F['sems']), 'stores': len(F['stores']), 'top': F['top']})
    if only is None:
        native_config_validation(ck)


def native_config_validation(ck):
    """the real create_memcrs_server started with CLI arguments: the configured connection limit is what is enforced"""
    scs = [({'kind': 'server', 'args': ['--runtime-type', 'current-thread', '--threads', '2', '--connection-limit', '1'], 'conns': 12}, 1),
           ({'kind': 'server', 'args': ['--runtime-type', 'multi-thread', '--threads', '2', '--connection-limit', '2'], 'conns': 6}, 2),
           ({'kind': 'server', 'args': ['--runtime-type', 'current-thread', '--threads', '1', '--connection-limit', '3', '--eviction-policy', 'random'], 'conns': 6}, 3)]
    for (sc, want), out in zip(scs, ck.replay([s for s, _ in scs])):
        if out.get('served') == want:
            ck.replays_ok += 1
        else:
            ck.replays_bad += 1
            ck.inconclusive.append(f'native whole-server run {sc["args"]}: {out} (expected {want} connections served)')


def native_item_limit(ck, runtime_type, policy):
    """the real server started with --item-size-limit 4096 --memory-limit 64MiB: a set of 8203 body bytes must be refused (0x03) and a
    set of 100 bytes stored -> (True if not | None, description, scenario)"""
    from .wire import frame, parse_response
    import struct
    big = frame(0x01, b'big', struct.pack('>II', 0, 0), b'v' * 8192, opaque=1)
    small = frame(0x01, b'small', struct.pack('>II', 0, 0), b'v' * 100, opaque=2)
    rt = 'current-thread' if runtime_type == 'CurrentThread' else 'multi-thread'
    args = ['--runtime-type', rt, '--threads', '2', '--item-size-limit', '4096', '--memory-limit', '64MiB']
    if policy == 'Random':
        args += ['--eviction-policy', 'random']
    sc = {'kind': 'server', 'args': args, 'conns': 1, 'probe_frames': [big.hex(), small.hex()]}
    out = ck.replay([sc])[0]
    if 'error' in out:
        return None, 'native whole-server scenario failed: ' + str(out['error']), sc
    got = bytes.fromhex(out.get('probe_received', ''))
    st, pos = [], 0
    while len(got) - pos >= 24:
        r = parse_response(got[pos:])
        st.append((r['opaque'], r['status']))
        pos += 24 + r['body']
    desc = f"memcrsd {' '.join(args)}: set of 8203 body bytes then set of 113 body bytes answered (opaque, status) {st} (expected [(1, 3), (2, 0)])"
    return (None if st == [(1, 3), (2, 0)] else True), desc, sc


def native_limit(ck, threads):
    """two MemcacheTcpServer instances built the way create_current_thread_server builds one per thread, both with connection
    limit 1, behind one port: two idle connections are both served (effective limit = threads x limit)"""
    sc = {'kind': 'server', 'args': ['--runtime-type', 'current-thread', '--threads', str(threads), '--connection-limit', '1'], 'conns': 6 * threads}
    out = ck.replay([sc])[0]
    if 'error' in out:
        return None, 'native whole-server scenario failed: ' + str(out['error']), sc
    served = out['served']
    desc = f"memcrsd --runtime-type current-thread --threads {threads} --connection-limit 1: every listener thread builds its own MemcacheTcpServer and " \
           f"therefore its own semaphore; the real server answers {served} of {6 * threads} simultaneously open connections"
    return (True if served > 1 else None), desc, sc


# ------------------------------------------------------------------------------------------------ accept loop (C17)
def install_accept_models(E):
    if getattr(E, '_accept_models', False):
        return
    E._accept_models = True
    from mirse.models import tokio_io
    E.enums['Out'] = [('_0', 0), ('Disabled', 1)]

    @reg(E, 'MemcacheTcpServer::get_tcp_listener')
    def get_listener(E, a, ctx):
        return ok(Agg('TcpListener', [Opaque('listener')]))

    @reg(E, 'tokio::macros::support::thread_rng_n')
    def rng_n(E, a, ctx):
        v = E.fresh('select_start', 32)
        E.assume(z3.ULT(v, a[0]))
        return v

    @reg(E, 'tokio::net::TcpListener::accept')
    def accept(E, a, ctx):
        return Agg('AcceptFut', [a[0]])

    @reg_re(E, r'^<tokio::future::poll_fn::PollFn<.*> as Future>::poll$')
    def pollfn_poll(E, a, ctx):
        pf = a[0].fields[0]
        v = E.load(pf)
        clo = v.fields[0]
        cref = Ref(pf.cell, pf.path + (('field', 0),))
        f = E.fns[clo.ty[8:]]
        r = yield ('call', f, [cref, a[1]])
        return r

    @reg(E, 'tokio::future::poll_fn::poll_fn')
    def poll_fn(E, a, ctx):
        return Agg('PollFn', [a[0]])

    @reg(E, 'Semaphore::try_acquire')
    def try_acquire(E, a, ctx):
        s = E.load(a[0])
        if E.decide(z3.UGT(s.fields[0], 0)):
            E.store(a[0], Agg('Semaphore', [s.fields[0] - 1]))
            E.events.append(('sem.acquire',))
            return ok(tokio_io.Permit(a[0]))
        return err(Opaque('TryAcquireError'))


def accept_poll(E, st, place, ctx):
    """the accept future: hands out the next pending connection of the harness, or stays pending"""
    q = E.rt.setdefault('incoming', 0)
    if q <= 0:
        return PENDING
    # accept() itself can fail (EMFILE, ECONNABORTED, ...): the connection stays in the backlog / is gone, the loop goes on
    if E.rt.get('accept_errors', 0) > 0 and E.decide(E.fresh('accept_fails', 'bool')):
        E.rt['accept_errors'] -= 1
        E.events.append(('accept.error',))
        return ready(err(Opaque('io::Error')))
    E.rt['incoming'] = q - 1
    E.events.append(('accept',))
    sock = Sock(BV(0), BV(0), 'silent')
    return ready(ok(Agg('tuple', [sock, Opaque('peer')])))


def run_accept_loop(ck, tier):
    """one MemcacheTcpServer::run future polled with N pending connections and P free permits: a connection is handed to a
    spawned task only after one permit has been taken and forgotten; with no permit left the loop waits (nothing is spawned)
    and resumes when a permit is returned."""
    E = ck.E
    install_models(E)
    install_accept_models(E)
    from mirse.models import tokio_io
    # the coroutine-poll model dispatches on .ty for non-MIR futures
    E.accept_poll = accept_poll
    run = E.fn('MemcacheTcpServer', 'run')
    from .world import St, World
    P = z3.BitVec('permits', 64)
    for incoming in ((1, 2, 3) if tier != 'quick' else (1, 2)):
        def h(E, incoming=incoming):
            E.assume(z3.ULE(P, 3))
            st = St(1)
            for c in st.wellformed():
                E.assume(c)
            w = World(E, st)
            E.rt['incoming'] = incoming
            E.rt['accept_errors'] = 1
            E.peer_addr_may_fail = True
            cfg = mk(E, 'MemcacheServerConfig', timeout_secs=BV(60, 32), connection_limit=BV(3, 32), item_memory_limit=BV(1 << 20, 32), listen_backlog=BV(16, 32))
            semref = Ref(E.alloc(Agg('Semaphore', [P])))
            srv = E.alloc(mk(E, 'MemcacheTcpServer', storage=Ref(w.memc_cell), limit_connections=semref, config=cfg))
            co = E.call(run, [Ref(srv), Opaque('addr')])
            cell = E.alloc(co)
            r1 = E.call(co.fn, [Agg('Pin', [Ref(cell)]), Opaque('cx')])
            spawned1 = len(E.tasks)
            permits1 = E.load(semref).fields[0]
            ev1 = [e[0] for e in E.events if e[0] in ('accept', 'sem.acquire', 'sem.forget', 'spawn', 'sem.wait', 'sem.release_on_drop')]
            # a served connection ends: its Client is dropped and returns the permit; the loop is polled again
            E.store(semref, Agg('Semaphore', [E.load(semref).fields[0] + 1]))
            # (a future that has completed - the loop ended - is not polled again)
            r2 = E.call(E.heap[cell].fn, [Agg('Pin', [Ref(cell)]), Opaque('cx')]) if r1.var == 1 else r1
            spawned2 = len(E.tasks)
            permits2 = E.load(semref).fields[0]
            ev2 = [e[0] for e in E.events if e[0] in ('accept', 'sem.acquire', 'sem.forget', 'spawn', 'sem.wait', 'sem.release_on_drop')]
            evk = [e[0] for e in E.events if e[0] in ('peer_addr', 'accept.error')]
            # every connection ends (each live task returns its permit through Drop for Client), then `limit` fresh ones arrive
            live = spawned2 - 1
            E.store(semref, Agg('Semaphore', [E.load(semref).fields[0] + BV(live)]))
            E.rt['incoming'] = 3
            E.rt['accept_errors'] = 0
            r3 = E.call(E.heap[cell].fn, [Agg('Pin', [Ref(cell)]), Opaque('cx')]) if r2.var == 1 else r2
            spawned3 = len(E.tasks)
            return dict(r3=r3.var, spawned3=spawned3, evk=evk, r1=r1.var, spawned1=spawned1, permits1=permits1, ev1=ev1, r2=r2.var, spawned2=spawned2, permits2=permits2, ev2=ev2)
        res = ck.explore(h)

        def on_w(m, where):
            return native_accept(ck)
        for p in res:
            if p.status != 'ok':
                ck.inconclusive.append(f'accept loop ({incoming} incoming): {p.status} {p.info}')
                continue
            F = p.out
            n = incoming
            # whatever happens to one connection (its peer resets before it is accepted, socket options fail, ...) the
            # listener keeps accepting: the run future never completes
            ck.obligation(f'accept loop, {n} incoming: the accept loop never ends because of one connection', p.pc,
                          z3.BoolVal(F['r1'] == 1 and F['r2'] == 1), {}, lambda m, where: native_accept_reset(ck), [])
            if F['r1'] != 1 or F['r2'] != 1 or F['r3'] != 1:
                continue
            # after any history (failed accepts and failed socket set-up included) the server can again serve `limit` fresh connections
            ck.obligation(f'accept loop, {n} incoming: once every connection has ended, `limit` fresh connections are served again', p.pc,
                          BV(F['spawned3'] - F['spawned2']) == P, {}, lambda m, where: native_accept_error(ck), [])
            if 'peer_addr' in F.get('evk', []) or 'accept.error' in F.get('evk', []):
                ck.cover('accept loop: a failed accept / socket set-up is survived', True)
                continue
            exp1 = z3.If(z3.ULT(P, n), P, BV(n))
            ck.obligation(f'accept loop, {n} incoming: connections handed to tasks = min(incoming, free permits)', p.pc,
                          BV(F['spawned1']) == exp1, {}, on_w, [])
            # after a permit came back: exactly one more waiting connection is served, if any was waiting
            waiting = z3.UGT(BV(n), P)
            ck.obligation(f'accept loop, {n} incoming: a returned permit lets exactly one waiting connection in', p.pc,
                          BV(F['spawned2'] - F['spawned1']) == z3.If(waiting, BV(1), BV(0)), {}, on_w, [])
            ck.cover(f'accept loop: {"some connection waits" if F["spawned1"] < n else "all served"}', True)
            ck.sample({'incoming': n, 'events': F['ev2'], 'spawned_first_poll': F['spawned1'], 'spawned_after_release': F['spawned2']})


def native_accept(ck):
    """loopback, connection limit 1: A is served; B connects and must wait; A closes and B is picked up; C connects while B is
    still open and must NOT be served.  -> (True if the limit is exceeded natively | None, description, scenario)"""
    from .wire import frame
    noop = frame(0x0a, opaque=9).hex()
    sc = {'kind': 'socket', 'item_limit': 1024, 'timeout_secs': 5, 'connection_limit': 1, 'final_wait_ms': 300,
          'conns': [{'chunks': [noop], 'pause_ms': 40, 'read_ms': 250, 'end': 'hold'},
                    {'chunks': [noop], 'pause_ms': 40, 'read_ms': 250, 'end': 'hold'},
                    {'chunks': [noop], 'pause_ms': 40, 'read_ms': 400, 'end': 'hold', 'close_first': [0]}]}
    out = ck.replay([sc])[0]
    c = out['conns']
    a_served = len(c[0].get('received', '')) >= 48
    b_waited = len(c[1].get('received', '')) == 0
    b_later = len(c[1].get('later_received', '')) >= 48
    c_served = len(c[2].get('received', '')) >= 48 or len(c[2].get('later_received', '')) >= 48
    desc = f"connection limit 1 over loopback: A served={a_served}; B waits while A is open={b_waited}; after A closed B served={b_later}; " \
           f"C (opened while B is still open) served={c_served}"
    bad = c_served or not a_served or not b_waited or not b_later
    return (True if bad else None), desc, sc


def native_accept_error(ck):
    """loopback, connection limit 2: A connects while the process has no free file descriptor (the server's accept() fails with
    EMFILE for 300 ms), then descriptors are available again: A must be served; A closes; then B and C must both be served at once."""
    from .wire import frame
    noop = frame(0x0a, opaque=9).hex()
    sc = {'kind': 'socket', 'item_limit': 1024, 'timeout_secs': 5, 'connection_limit': 2, 'final_wait_ms': 300,
          'conns': [{'chunks': [noop], 'pause_ms': 40, 'read_ms': 1500, 'end': 'hold', 'fd_exhaustion_ms': 300},
                    {'chunks': [noop], 'pause_ms': 40, 'read_ms': 600, 'end': 'hold', 'close_first': [0]},
                    {'chunks': [noop], 'pause_ms': 40, 'read_ms': 600, 'end': 'hold'}]}
    out = ck.replay([sc])[0]
    c = out['conns']
    served = [len(x.get('received', '')) >= 48 or len(x.get('later_received', '')) >= 48 for x in c]
    desc = f"connection limit 2: A connects while accept() fails with EMFILE for 300 ms: served={served[0]}; A closes; B and C connect: served={served[1]}, {served[2]}"
    return (None if all(served) else True), desc, sc


def native_accept_reset(ck):
    """loopback, connection limit 1: A is served; B is accepted and waits for a slot; C connects and resets while it is still in
    the listen backlog; A and B close; D must still be accepted and served."""
    from .wire import frame
    noop = frame(0x0a, opaque=9).hex()
    sc = {'kind': 'socket', 'item_limit': 1024, 'timeout_secs': 5, 'connection_limit': 1, 'final_wait_ms': 200,
          'conns': [{'chunks': [noop], 'pause_ms': 40, 'read_ms': 200, 'end': 'hold'},
                    {'chunks': [noop], 'pause_ms': 40, 'read_ms': 200, 'end': 'hold'},
                    {'chunks': [], 'pause_ms': 10, 'read_ms': 10, 'end': 'reset'},
                    {'chunks': [noop], 'pause_ms': 40, 'read_ms': 600, 'end': 'close', 'close_first': [0, 1]}]}
    out = ck.replay([sc])[0]
    c = out['conns']
    d_served = len(c[3].get('received', '')) >= 48
    desc = f"connection limit 1: A served, B waiting, C connects and resets while still in the backlog, A and B close, then D connects: D served = {d_served}"
    return (None if d_served else True), desc, sc


# ------------------------------------------------------------------------------------------------ the server clock (C20 / C05)
def install_timer_models(E):
    """tokio::time::{Instant::now, interval_at, Interval::tick, set_missed_tick_behavior} after the documented semantics: the
    first tick completes at `start`, later ones at start + k * period; a tick future completes at some time t >= its deadline
    (the task may be delayed arbitrarily); then Burst (default): deadline += period; Delay: deadline = t + period;
    Skip: deadline = the next multiple of the period after t.  Time is a symbolic non-decreasing number of milliseconds."""
    if getattr(E, '_timer_models', False):
        return
    E._timer_models = True
    from mirse.models import tokio_io

    @reg(E, 'tokio::time::Instant::now', 'Instant::now')
    def now(E, a, ctx):
        return Agg('Instant', [E.rt['clock_ms']])

    @reg(E, 'Duration::from_secs', 'std::time::Duration::from_secs')
    def from_secs(E, a, ctx):
        return Agg('Duration', [a[0] * 1000])

    @reg(E, 'interval_at', 'tokio::time::interval_at')
    def interval_at(E, a, ctx):
        return Agg('Interval', [a[0].fields[0], a[1].fields[0], 'burst'])

    @reg(E, 'Interval::set_missed_tick_behavior', 'tokio::time::Interval::set_missed_tick_behavior')
    def set_mtb(E, a, ctx):
        iv = E.load(a[0])
        what = repr(a[1]).lower()
        mode = 'skip' if 'skip' in what else 'delay' if 'delay' in what else 'burst' if 'burst' in what else None
        if mode is None and isinstance(a[1], Enum):
            mode = {0: 'burst', 1: 'delay', 2: 'skip'}.get(a[1].var)
        if mode is None:
            raise Unsupported(f'missed tick behaviour {a[1]!r}')
        E.store(a[0], Agg('Interval', [iv.fields[0], iv.fields[1], mode]))
        return UNIT

    @reg(E, 'Interval::tick', 'tokio::time::Interval::tick')
    def tick(E, a, ctx):
        return Agg('TickFut', [a[0]])

    def tick_poll(E, st, place, ctx):
        ivref = st.fields[0]
        iv = E.load(ivref)
        deadline, period, mode = iv.fields
        facts = E.rt.setdefault('tick_facts', [])
        if len(facts) >= E.rt.get('tick_budget', 3):
            return PENDING
        # what the harness can see at this point: the seconds counted so far, the time, the next deadline
        facts.append((E.rt['seconds_of'](), E.rt['clock_ms'], deadline))
        t = E.fresh('tick_at', 64)
        E.assume(z3.UGE(t, E.rt['clock_ms']), z3.UGE(t, deadline), z3.ULT(t, 1 << 40))
        E.rt['clock_ms'] = t
        if mode == 'burst':
            nd = deadline + period
        elif mode == 'delay':
            nd = t + period
        else:
            nd = z3.If(z3.ULT(t, deadline + period), deadline + period, t + period - z3.URem(t - deadline, period))
        E.store(ivref, Agg('Interval', [nd, period, mode]))
        return ready(Agg('Instant', [deadline]))
    E.timer_tick_poll = tick_poll


def run_timer(ck, tier):
    """SystemTimer::run executed for k ticks with arbitrary delays of the task between them: whenever the timer task has caught up
    (no deadline in the past is still undelivered) the seconds it has counted are the whole seconds elapsed since it started"""
    E = ck.E
    install_models(E)
    install_timer_models(E)
    from mirse.models import tokio_io
    run = E.fn('SystemTimer', 'run')
    k = 4 if tier == 'quick' else 6
    start = z3.BitVec('timer_start_ms', 64)

    def h(E):
        E.assume(z3.ULT(start, 1 << 30))
        E.rt['clock_ms'] = start
        E.rt['tick_budget'] = k
        E.rt['tick_facts'] = []
        tcell = E.alloc(mk(E, 'SystemTimer', seconds=BV(0)))
        E.rt['seconds_of'] = lambda: fld(E, E.heap[tcell], 'SystemTimer', 'seconds')
        co = E.call(run, [Ref(tcell)])
        cell = E.alloc(co)
        r = E.call(co.fn, [Agg('Pin', [Ref(cell)]), Opaque('cx')])
        return dict(r=r.var, facts=list(E.rt['tick_facts']), seconds=E.rt['seconds_of'](), now=E.rt['clock_ms'])
    res = ck.explore(h)

    def on_w(m, where):
        sc = {'kind': 'timer', 'stall_ms': 3200, 'observe_ms': 6500}
        out = ck.replay([sc], timeout=60)[0]
        desc = f"SystemTimer::run on a current-thread runtime whose thread is blocked for 3.2 s: after {out.get('elapsed_ms')} ms the server clock reads {out.get('timestamp')} s (every tick delivered: {out.get('elapsed_ms', 0) // 1000 + 1})"
        # with every tick delivered the clock reads floor(elapsed) + 1 (the first tick is immediate); fewer than floor(elapsed) means seconds were lost
        bad = out.get('timestamp', 0) < out.get('elapsed_ms', 0) // 1000
        return (True if bad else None), desc, sc
    for p in res:
        if p.status != 'ok':
            ck.inconclusive.append(f'timer: {p.status} {p.info}')
            continue
        F = p.out
        conds = []
        for secs, now, deadline in F['facts'][1:]:
            # caught up: the next deadline lies in the future => counted seconds = deadlines passed = floor((now - start) / 1000) + 1
            el = now - start
            conds.append(z3.Implies(z3.UGT(deadline, now), z3.And(z3.ULE((secs - 1) * 1000, el), z3.UGT(secs * 1000, el))))
        ck.obligation(f'timer: after {k} ticks with arbitrary delays the counted seconds are the elapsed seconds whenever the task has caught up', p.pc,
                      z3.And(conds) if conds else z3.BoolVal(True), {}, on_w, [])
        ck.cover('timer: ticks delivered', len(F['facts']) >= k)
    ck.bounds['timer'] = f'{k} ticks, arbitrary delay before each, period 1 s'
    # the model of tokio's interval against the real one: the same stall natively must not lose seconds on this tree
    r, desc, sc = on_w(None, None)
    if r is None:
        ck.replays_ok += 1
    else:
        ck.replays_bad += 1
        ck.inconclusive.append('timer model validation: ' + desc)

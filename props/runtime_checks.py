"""Tier 3: runtime_builder / memc_tcp plumbing. Filled in later."""


def run_plumbing(ck, tier):
    ck.notes.append('plumbing harness not built yet')

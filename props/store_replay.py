"""Turn a solver model of a store-level witness into a native handler scenario (wire frames fed to the real
decode -> handle_request -> encode_message) and compare what the real code does with what the engine predicted."""
import struct, z3
from .common import mval
from .wire import frame, parse_response, OP
from .store_common import R_OK, R_PANIC
from mirse.models.bytesm import visnum, vutf8, vnum, vlen

OPC = {'set': 0x01, 'add': 0x02, 'replace': 0x03, 'append': 0x0e, 'prepend': 0x0f, 'get': 0x00,
       'increment': 0x05, 'decrement': 0x06, 'delete': 0x04, 'flush': 0x08}


class Concretizer:
    def __init__(self, m):
        self.m = m
        self.assigned = {}
        # stored terms the model equates with a window of the wire array get that window's bytes
        from mirse.models.bytesm import vwin
        from .wire import wire_bytes
        fi = None
        if any(d.name() == 'vwin' for d in m.decls()):
            fi = m.get_interp(vwin)
        if fi is not None and not z3.is_expr(fi):
            for i in range(fi.num_entries()):
                e = fi.entry(i)
                off, ln = e.arg_value(0).as_long(), e.arg_value(1).as_long()
                if ln > (1 << 21):
                    continue
                key = str(e.value())
                b = wire_bytes(m, ln, off)
                if key in self.assigned and self.assigned[key] != b:
                    self.assigned[key] = None     # two windows with different bytes equated: not realisable
                else:
                    self.assigned[key] = b

    def base_bytes(self, c):
        """bytes for an uninterpreted Val constant, consistent with what the model says about it"""
        m = self.m
        key = str(m.eval(c, model_completion=True))
        if key in self.assigned:
            if self.assigned[key] is None:
                raise ValueError('the model equates byte strings that differ')
            return self.assigned[key]
        num = z3.is_true(m.eval(z3.And(visnum(c), vutf8(c)), model_completion=True))
        if num:
            b = str(mval(m, vnum(c))).encode()
            n = mval(m, vlen(c))
            if len(b) < n <= (1 << 21):
                b = b.rjust(n, b'0')      # a decimal u64 may carry leading zeros: honour the model's length
        else:
            n = mval(m, vlen(c))
            idx = len(self.assigned)
            b = (b'x%d-' % idx)
            if 0 < n <= (1 << 21):
                b = (b * n)[:n]
                if n < 4 and any(x == b for x in self.assigned.values()):
                    b = bytes([0x61 + idx]) * n
            elif n == 0:
                b = b''
        self.assigned[key] = b
        return b

    def val(self, t):
        if z3.is_app(t):
            name = t.decl().name()
            if name == 'vcat':
                return self.val(t.arg(0)) + self.val(t.arg(1))
            if name == 'vdec':
                return str(mval(self.m, t.arg(0))).encode()
            if name == 'vempty':
                return b''
            if name == 'if':
                return self.val(t.arg(1)) if z3.is_true(self.m.eval(t.arg(0), model_completion=True)) else self.val(t.arg(2))
            if t.num_args() == 0:
                return self.base_bytes(t)
        raise ValueError('cannot concretise ' + str(t))


def key_bytes(i):
    return b'key%d' % i


def cmd_frame(cmd, j, C, m, inp):
    k = key_bytes(j)
    cas = mval(m, inp.cas)
    if cmd in ('set', 'add', 'replace'):
        return frame(OPC[cmd], k, struct.pack('>II', mval(m, inp.flags), mval(m, inp.ttl)), C.val(inp.val), cas=cas)
    if cmd in ('append', 'prepend'):
        return frame(OPC[cmd], k, b'', C.val(inp.val), cas=cas)
    if cmd == 'get':
        return frame(0x00, k)
    if cmd in ('increment', 'decrement'):
        return frame(OPC[cmd], k, struct.pack('>QQI', mval(m, inp.delta), mval(m, inp.init), mval(m, inp.ttl)),
                     b'', opaque=mval(m, inp.flags), cas=cas)
    if cmd == 'delete':
        return frame(0x04, k, cas=cas)
    if cmd == 'flush':
        d = mval(m, inp.ttl)
        return frame(0x08, b'', struct.pack('>I', d) if d else b'')
    raise ValueError(cmd)


def setup_steps(m, st, C):
    """public-API + hook recipe that builds the pre-state: per present key an unconditional set at clock ts_i
    right after the CAS counter has been set to cas_i (so the stored CAS is exactly cas_i)"""
    steps = []
    order = sorted(range(st.K), key=lambda i: mval(m, st.ts[i]))
    for i in order:
        if not mval(m, st.present[i]):
            continue
        steps.append({'set_cas_id': mval(m, st.cas[i])})
        steps.append({'clock': mval(m, st.ts[i]),
                      'frame': frame(0x01, key_bytes(i), struct.pack('>II', mval(m, st.flags[i]), mval(m, st.ttl[i])),
                                     C.val(st.val[i])).hex()})
    steps.append({'set_cas_id': mval(m, st.cas_id)})
    return steps


def scenario(m, st, inp, cmd, j, policy=None, memory_limit=None, probes=True, probe_clock=None):
    C = Concretizer(m)
    steps = setup_steps(m, st, C)
    nsetup = len(steps)
    steps.append({'clock': mval(m, st.now), 'frame': cmd_frame(cmd, j, C, m, inp).hex()})
    if probes:
        for i in range(st.K):
            s = {'frame': frame(0x00, key_bytes(i)).hex()}
            if probe_clock is not None:
                s['clock'] = probe_clock
            steps.append(s)
    sc = {'kind': 'handler', 'policy': policy or 'none', 'item_limit': 1 << 20, 'steps': steps}
    if policy == 'random':
        sc['memory_limit'] = memory_limit
    return sc, nsetup, C


def predicted(m, st, s, C, probe_clock=None):
    """what the engine says the real code does on this witness: (status, cas, numeric value, get payload), probes"""
    now = mval(m, st.now) if probe_clock is None else probe_clock
    out = {'kind': s.rkind}
    if s.rkind == R_PANIC:
        return out, None
    if s.rcas is not None:
        out['cas'] = mval(m, s.rcas)
    if s.rnum is not None:
        out['num'] = mval(m, s.rnum)
    if s.rval is not None and s.cmd == 'get':
        out['value'] = C.val(z3.simplify(m.eval(s.rval, model_completion=False)) if False else s.rval)
        out['flags'] = mval(m, s.rflags)
    probes = []
    for i in range(st.K):
        p = mval(m, s.post['present'][i])
        ttl = mval(m, s.post['ttl'][i])
        ts = mval(m, s.post['ts'][i])
        vis = bool(p) and (ttl == 0 or now < ts + ttl)
        if vis:
            probes.append({'vis': True, 'cas': mval(m, s.post['cas'][i]), 'flags': mval(m, s.post['flags'][i]),
                           'value': C.val(s.post['val'][i])})
        else:
            probes.append({'vis': False})
    return out, probes


def observe(res, nsetup, K):
    """native outcome of the command step and the probes"""
    steps = res['steps']
    c = steps[nsetup]
    obs = {}
    if 'panic' in c:
        obs['kind'] = R_PANIC
        obs['panic'] = c['panic']
    elif c.get('response') is None:
        obs['kind'] = None
    else:
        r = parse_response(bytes.fromhex(c['response']))
        obs['kind'] = r['status']
        obs['cas'] = r['cas']
        obs['resp'] = r
    probes = []
    for i in range(K):
        k = nsetup + 1 + i
        if k >= len(steps):
            break
        p = steps[k]
        if 'panic' in p or p.get('response') is None:
            probes.append({'vis': None})
            continue
        r = parse_response(bytes.fromhex(p['response']))
        if r['status'] == 0:
            probes.append({'vis': True, 'cas': r['cas'], 'flags': struct.unpack('>I', r['extras'])[0] if len(r['extras']) == 4 else None,
                           'value': r['value']})
        else:
            probes.append({'vis': False})
    return obs, probes


def matches(pred, pprobes, obs, oprobes, cmd):
    """does the native run do what the engine predicted? -> (bool, text)"""
    diffs = []
    if pred['kind'] != obs['kind']:
        diffs.append(f"result kind predicted {pred['kind']} native {obs['kind']} {obs.get('panic', '')}")
    elif pred['kind'] == R_OK:
        if 'cas' in pred and cmd != 'get' and cmd != 'delete' and pred['cas'] != obs.get('cas'):
            diffs.append(f"response cas predicted {pred['cas']} native {obs.get('cas')}")
        r = obs.get('resp')
        if 'num' in pred and r is not None:
            nv = struct.unpack('>Q', r['value'])[0] if len(r['value']) == 8 else None
            if nv != pred['num']:
                diffs.append(f"counter value predicted {pred['num']} native {nv}")
        if cmd == 'get' and r is not None:
            if r['value'] != pred.get('value'):
                diffs.append(f"get value predicted {pred.get('value')!r} native {r['value']!r}")
            if pred.get('cas') != r['cas']:
                diffs.append(f"get cas predicted {pred.get('cas')} native {r['cas']}")
    if pprobes is not None:
        for i, (a, b) in enumerate(zip(pprobes, oprobes)):
            if a['vis'] != b['vis']:
                diffs.append(f"key{i} visibility predicted {a['vis']} native {b['vis']}")
            elif a['vis']:
                for f in ('cas', 'flags', 'value'):
                    if a[f] != b[f]:
                        diffs.append(f"key{i} {f} predicted {a[f]!r} native {b[f]!r}")
    return (not diffs), '; '.join(diffs)

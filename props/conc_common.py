"""Schedule exploration: each client is a simulated thread executing a real `MemcStore` method from its MIR; threads are
parked at calls into shared objects (DashMap methods, atomics) and every interleaving is explored (scheduler choices are
decisions like branches); data fully symbolic.  Linearizability is decided per (schedule, path) by the solver against a
reference single-key semantics in which new CAS values are tokens (the CAS each command was acknowledged with)."""
import itertools, z3
from mirse.values import *
from mirse.models.bytesm import Val, VTerm, vlen, vcat, vdec, visnum, vutf8, vnum
from mirse.models.dashmap import KeyTok
from .store_common import *
from .world import St, World, mk, fld, record
from .common import mval

OK_, NF_, EX_, NN_ = R_OK, R_NOTFOUND, R_EXISTS, R_NONNUM
MUTATORS = ('set', 'add', 'replace', 'append', 'prepend', 'increment', 'decrement')


def cmd_args(E, w, cmd, inp):
    key = KeyTok(0)
    kc = E.alloc(key)
    z = BV(0)
    if cmd in ('set', 'add', 'replace', 'append', 'prepend'):
        return [w.memc, key, record(E, inp.val, inp.cas, inp.flags, inp.ttl, z)]
    if cmd == 'get':
        return [w.memc, Ref(kc)]
    if cmd in ('increment', 'decrement'):
        meta = mk(E, 'CacheMetaData', timestamp=z, cas=inp.cas, flags=inp.flags, time_to_live=inp.ttl)
        return [w.memc, meta, key, mk(E, 'DeltaParam', delta=inp.delta, value=inp.init)]
    if cmd == 'delete':
        return [w.memc, key, mk(E, 'CacheMetaData', timestamp=z, cas=inp.cas, flags=BV(0, 32), time_to_live=BV(0, 32))]
    if cmd == 'flush':
        return [w.memc, mk(E, 'CacheMetaData', timestamp=z, cas=z, flags=BV(0, 32), time_to_live=inp.ttl)]
    raise ValueError(cmd)


class Obs:
    """what one command observed"""

    def __init__(self, E, cmd, inp, th):
        self.cmd = cmd
        self.inp = inp
        self.kind = None
        self.rcas = self.rval = self.rflags = self.rnum = None
        if th.status == 'panicked':
            self.kind = R_PANIC
            return
        if th.status != 'done':
            self.kind = 'blocked'
            return
        r = th.result
        if cmd == 'flush':
            self.kind = OK_
            return
        if r.var == 0:
            self.kind = OK_
            v = r.fields[0]
            if cmd in ('get', 'delete'):
                hh = fld(E, v, 'Record', 'header')
                self.rval = val_term(fld(E, v, 'Record', 'value'))
                self.rflags = fld(E, hh, 'CacheMetaData', 'flags')
                self.rcas = fld(E, hh, 'CacheMetaData', 'cas')
            elif cmd in ('increment', 'decrement'):
                self.rcas = fld(E, v, 'DeltaResult', 'cas')
                self.rnum = fld(E, v, 'DeltaResult', 'value')
            else:
                self.rcas = fld(E, v, 'SetStatus', 'cas')
        else:
            self.kind = r.fields[0].var


def ref_apply(cmd, inp, s, token):
    """reference semantics of one command on the single key; s = (vis, val, flags, cas); token = CAS a successful mutation gets
    -> (kind term BV8, dict of result terms, new state)"""
    vis, val, flags, cas = s
    k8 = lambda n: BV(n, 8)
    cas_ok = z3.Or(inp.cas == 0, inp.cas == cas)
    res = {}
    if cmd == 'get':
        return z3.If(vis, k8(OK_), k8(NF_)), {'rval': val, 'rflags': flags, 'rcas': cas}, s
    if cmd == 'set':
        kind = z3.If(z3.And(vis, z3.Not(cas_ok)), k8(EX_), k8(OK_))
        st = kind == OK_
        return kind, {'rcas': token}, (z3.If(st, z3.BoolVal(True), vis), z3.If(st, inp.val, val), z3.If(st, inp.flags, flags), z3.If(st, token, cas))
    if cmd == 'add':
        kind = z3.If(vis, k8(EX_), k8(OK_))
        st = kind == OK_
        return kind, {'rcas': token}, (z3.If(st, z3.BoolVal(True), vis), z3.If(st, inp.val, val), z3.If(st, inp.flags, flags), z3.If(st, token, cas))
    if cmd == 'replace':
        kind = z3.If(z3.Not(vis), k8(NF_), z3.If(cas_ok, k8(OK_), k8(EX_)))
        st = kind == OK_
        return kind, {'rcas': token}, (vis, z3.If(st, inp.val, val), z3.If(st, inp.flags, flags), z3.If(st, token, cas))
    if cmd in ('append', 'prepend'):
        kind = z3.If(z3.Not(vis), k8(NF_), z3.If(cas_ok, k8(OK_), k8(EX_)))
        st = kind == OK_
        nv = vcat(val, inp.val) if cmd == 'append' else vcat(inp.val, val)
        return kind, {'rcas': token}, (vis, z3.If(st, nv, val), flags, z3.If(st, token, cas))
    if cmd in ('increment', 'decrement'):
        numeric = z3.And(vutf8(val), visnum(val))
        v = vnum(val)
        nv = v + inp.delta if cmd == 'increment' else z3.If(z3.UGT(inp.delta, v), BV(0), v - inp.delta)
        create = inp.ttl != BV(0xffffffff, 32)
        kind = z3.If(vis, z3.If(z3.Not(numeric), k8(NN_), z3.If(cas_ok, k8(OK_), k8(EX_))), z3.If(create, k8(OK_), k8(NF_)))
        st = kind == OK_
        newval = z3.If(vis, vdec(nv), vdec(inp.init))
        return kind, {'rcas': token, 'rnum': z3.If(vis, nv, inp.init)}, \
            (z3.If(st, z3.BoolVal(True), vis), z3.If(st, newval, val), z3.If(z3.And(st, z3.Not(vis)), BV(0, 32), flags), z3.If(st, token, cas))
    if cmd == 'delete':
        kind = z3.If(z3.Not(vis), k8(NF_), z3.If(cas_ok, k8(OK_), k8(EX_)))
        st = kind == OK_
        return kind, {'rval': val, 'rflags': flags, 'rcas': cas}, (z3.If(st, z3.BoolVal(False), vis), val, flags, cas)
    raise ValueError(cmd)


def orders(progs):
    """all interleavings of the clients' command lists that respect each client's own order"""
    idx = [(c, i) for c, p in enumerate(progs) for i in range(len(p))]
    out = []
    for perm in itertools.permutations(idx):
        pos = {}
        ok = True
        for c, i in perm:
            if pos.get(c, -1) != i - 1:
                ok = False
                break
            pos[c] = i
        if ok:
            out.append(perm)
    return out


def linearizable(st, progs, obs, final):
    """z3 formula: some sequential order explains the observed results and the final content
    progs[c] = [(cmd, In)], obs[c][i] = Obs, final = (vis, val, flags, cas)"""
    s0 = (st.live(0), st.val[0], st.flags[0], st.cas[0])
    alts = []
    for perm in orders(progs):
        s = s0
        cs = []
        for c, i in perm:
            cmd, inp = progs[c][i]
            o = obs[c][i]
            if not isinstance(o.kind, int) or o.kind == R_PANIC:
                cs = [z3.BoolVal(False)]
                break
            token = o.rcas if (o.rcas is not None and cmd in MUTATORS) else BV(0)
            kind, res, s = ref_apply(cmd, inp, s, token)
            cs.append(kind == BV(o.kind, 8))
            if o.kind == OK_:
                if cmd == 'get':
                    cs += [o.rval == res['rval'], o.rflags == res['rflags'], o.rcas == res['rcas']]
                if cmd in ('increment', 'decrement'):
                    cs.append(o.rnum == res['rnum'])
        fv, fval, fflags, fcas = final[:4]
        cs.append(fv == s[0])
        cs.append(z3.Implies(fv, z3.And(fval == s[1], fflags == s[2], fcas == s[3])))
        alts.append(z3.And(cs))
    return z3.Or(alts)


def run_concurrent(E, st, progs, clock_mode='step', policy=None, memory_limit=None, extra=None):
    """progs[c] = [(cmd, In), ...]; returns (world, obs, final, threads)"""
    w = World(E, st, policy, memory_limit, clock_mode)
    results = [[None] * len(p) for p in progs]

    def client(c):
        def body():
            th = E.threads[c]
            for i, (cmd, inp) in enumerate(progs[c]):
                f = E.fn('MemcStore', cmd)
                r = yield ('call', f, cmd_args(E, w, cmd, inp))
                results[c][i] = r if r is not None else UNIT
            return None
        return body()
    threads = []
    for c in range(len(progs)):
        th = E.spawn(client(c), None, name=f'client{c}')
        threads.append(th)
    E.run_threads(threads)
    obs = []
    for c, p in enumerate(progs):
        row = []
        for i, (cmd, inp) in enumerate(p):
            th = threads[c]
            fake = type('T', (), {})()
            r = results[c][i]
            if r is not None:
                fake.status = 'done'
                fake.result = r
            elif th.status == 'panicked':
                fake.status = 'panicked'
            else:
                fake.status = th.status
            row.append(Obs(E, cmd, inp, fake))
        obs.append(row)
    p, v, fl, cas, ts, ttl = w.entry(0)
    if v is None:
        final = (z3.BoolVal(False), st.val[0], st.flags[0], st.cas[0])
    else:
        vis = z3.And(p, z3.Or(ttl == 0, z3.ULT(st.now, ts + z3.ZeroExt(32, ttl))))
        final = (vis, val_term(v), fl, cas)
    return w, obs, final, threads

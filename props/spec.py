"""Reference model of memcached semantics, written from the property statements C01-C08 (not from the code).

Abstract view of a key at server time `now`:
  vis  : the item is retrievable          (present and (ttl == 0 or now < mtime + ttl))
  val, flags, cas, ttl
  dl   : deadline = first second at which it is no longer retrievable (INF for ttl 0)
The spec gives, for every command, the expected result kind and the expected abstract post-state of every key.
CAS values are constrained relationally only (equal to the old one / fresh), never by absolute value.
`unspec` marks input regions for which the properties give no contract (a store carrying a non-zero CAS for an
absent key); there only the frame conditions and the state invariant are checked.
"""
import z3
from mirse.values import BV
from mirse.models.bytesm import vcat, vdec, visnum, vutf8, vnum, vlen
from .store_common import R_OK, R_NOTFOUND, R_EXISTS, R_NONNUM

INF = BV((1 << 64) - 1)


def deadline(ts, ttl):
    return z3.If(ttl == 0, INF, ts + z3.ZeroExt(32, ttl))


class Expect:
    def __init__(self):
        self.unspec = z3.BoolVal(False)
        self.kind = None            # z3 BV8 term
        self.vis = None             # per key Bool
        self.val = None
        self.flags = None
        self.dl = None
        self.cas_keep = None        # per key Bool: cas must equal the old cas
        self.cas_fresh = None       # per key Bool: cas must be new (non-zero, greater than every cas the lifetime carried)
        self.rval = None
        self.rflags = None
        self.rcas_is_old = None
        self.rnum = None
        self.loose_ttl = None       # per key: optional alternative deadline (incr/decr: request expiration vs item ttl)


def k8(n):
    return BV(n, 8)


def expect(cmd, j, st, inp):
    """expected outcome of `cmd` on key j from pre-state st with inputs inp at time st.now"""
    K = st.K
    now = st.now
    e = Expect()
    vis = [st.live(i) for i in range(K)]
    dl = [deadline(st.ts[i], st.ttl[i]) for i in range(K)]
    e.vis = list(vis)
    e.val = list(st.val)
    e.flags = list(st.flags)
    e.dl = list(dl)
    e.cas_keep = [z3.BoolVal(True)] * K
    e.cas_fresh = [z3.BoolVal(False)] * K
    e.loose_ttl = [None] * K
    T = z3.BoolVal(True)
    F = z3.BoolVal(False)
    new_dl = z3.If(inp.ttl == 0, INF, now + z3.ZeroExt(32, inp.ttl))
    cas_ok = z3.Or(inp.cas == 0, inp.cas == st.cas[j])        # on a visible item

    def store(cond, val, flags, dlx):
        """under cond the addressed key holds (val, flags) with deadline dlx and a fresh cas"""
        e.vis[j] = z3.If(cond, z3.UGT(dlx, now), e.vis[j])
        e.val[j] = z3.If(cond, val, e.val[j])
        e.flags[j] = z3.If(cond, flags, e.flags[j])
        e.dl[j] = z3.If(cond, dlx, e.dl[j])
        e.cas_keep[j] = z3.And(e.cas_keep[j], z3.Not(cond))
        e.cas_fresh[j] = z3.Or(e.cas_fresh[j], cond)

    if cmd == 'set':
        e.unspec = z3.And(z3.Not(vis[j]), inp.cas != 0)
        okc = z3.Or(z3.Not(vis[j]), cas_ok)
        e.kind = z3.If(okc, k8(R_OK), k8(R_EXISTS))
        store(okc, inp.val, inp.flags, new_dl)
    elif cmd == 'get':
        e.kind = z3.If(vis[j], k8(R_OK), k8(R_NOTFOUND))
        e.rval = st.val[j]
        e.rflags = st.flags[j]
        e.rcas_is_old = T
    elif cmd == 'add':
        e.unspec = z3.And(z3.Not(vis[j]), inp.cas != 0)
        e.kind = z3.If(vis[j], k8(R_EXISTS), k8(R_OK))
        store(z3.Not(vis[j]), inp.val, inp.flags, new_dl)
    elif cmd == 'replace':
        e.kind = z3.If(z3.Not(vis[j]), k8(R_NOTFOUND), z3.If(cas_ok, k8(R_OK), k8(R_EXISTS)))
        store(z3.And(vis[j], cas_ok), inp.val, inp.flags, new_dl)
    elif cmd in ('append', 'prepend'):
        e.kind = z3.If(z3.Not(vis[j]), k8(R_NOTFOUND), z3.If(cas_ok, k8(R_OK), k8(R_EXISTS)))
        nv = vcat(st.val[j], inp.val) if cmd == 'append' else vcat(inp.val, st.val[j])
        keep_dl = z3.If(st.ttl[j] == 0, INF, now + z3.ZeroExt(32, st.ttl[j]))
        store(z3.And(vis[j], cas_ok), nv, st.flags[j], keep_dl)
    elif cmd in ('increment', 'decrement'):
        numeric = z3.And(vutf8(st.val[j]), visnum(st.val[j]))
        v = vnum(st.val[j])
        if cmd == 'increment':
            nv = v + inp.delta
        else:
            nv = z3.If(z3.UGT(inp.delta, v), BV(0), v - inp.delta)
        create = inp.ttl != BV(0xffffffff, 32)
        e.kind = z3.If(vis[j],
                       z3.If(z3.Not(numeric), k8(R_NONNUM), z3.If(cas_ok, k8(R_OK), k8(R_EXISTS))),
                       z3.If(create, k8(R_OK), k8(R_NOTFOUND)))
        upd = z3.And(vis[j], numeric, cas_ok)
        mk = z3.And(z3.Not(vis[j]), create)
        keep_dl = z3.If(st.ttl[j] == 0, INF, now + z3.ZeroExt(32, st.ttl[j]))
        store(upd, vdec(nv), st.flags[j], keep_dl)
        e.loose_ttl[j] = (upd, new_dl)          # the properties do not say which ttl a counter update keeps
        store(mk, vdec(inp.init), BV(0, 32), new_dl)
        e.rnum = z3.If(vis[j], nv, inp.init)
    elif cmd == 'delete':
        # delete does not go through lazy expiry: for a stored-but-expired item both "removed" and "not found" are accepted
        e.unspec = z3.And(st.present[j], z3.Not(vis[j]))
        e.kind = z3.If(z3.Not(vis[j]), k8(R_NOTFOUND), z3.If(cas_ok, k8(R_OK), k8(R_EXISTS)))
        rm = z3.And(vis[j], cas_ok)
        e.vis[j] = z3.If(rm, F, e.vis[j])
    elif cmd == 'flush':
        e.kind = k8(R_OK)
        for i in range(K):
            if True:
                cut = now + z3.ZeroExt(32, inp.ttl)
                e.vis[i] = z3.If(inp.ttl == 0, F, z3.And(vis[i], z3.UGT(z3.If(z3.ULT(dl[i], cut), dl[i], cut), now)))
                e.dl[i] = z3.If(z3.ULT(dl[i], cut), dl[i], cut)
    return e

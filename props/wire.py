"""Symbolic view of memcached binary-protocol frames on the wire array, and concretisation helpers."""
import struct, z3
from mirse.values import *
from mirse.models.bytesm import WIRE, Buf


def B(i, base=0):
    off = (base + i) if isinstance(base, int) else (base + BV(i))
    return z3.Select(WIRE, BV(off) if isinstance(off, int) else off)


class Hdr:
    """header fields of the frame whose first byte is at `base` (int or BV64)"""

    def __init__(self, base=0):
        self.base = base
        b = lambda i: B(i, base)
        self.magic = b(0)
        self.opcode = b(1)
        self.keylen = z3.Concat(b(2), b(3))
        self.extlen = b(4)
        self.datatype = b(5)
        self.vbucket = z3.Concat(b(6), b(7))
        self.body = z3.Concat(b(8), b(9), b(10), b(11))
        self.opaque = z3.Concat(b(12), b(13), b(14), b(15))
        self.cas = z3.Concat(*[b(16 + i) for i in range(8)])
        self.body64 = z3.ZeroExt(32, self.body)
        self.key64 = z3.ZeroExt(48, self.keylen)
        self.ext64 = z3.ZeroExt(56, self.extlen)

    def op_in(self, *ops):
        return z3.Or([self.opcode == o for o in ops])


OP = dict(get=0x00, set=0x01, add=0x02, replace=0x03, delete=0x04, incr=0x05, decr=0x06, quit=0x07, flush=0x08,
          getq=0x09, noop=0x0a, version=0x0b, getk=0x0c, getkq=0x0d, append=0x0e, prepend=0x0f, stat=0x10,
          setq=0x11, addq=0x12, replaceq=0x13, deleteq=0x14, incrq=0x15, decrq=0x16, quitq=0x17, flushq=0x18,
          appendq=0x19, prependq=0x1a, touch=0x1c, gat=0x1d, gatq=0x1e, sasl_list=0x20, sasl_auth=0x21,
          sasl_step=0x22, gatk=0x23, gatkq=0x24)
GET_FAMILY = (0x00, 0x09, 0x0c, 0x0d)
DELETE_FAMILY = (0x04, 0x14)
SET_FAMILY = (0x01, 0x02, 0x03, 0x11, 0x12, 0x13)
APPEND_FAMILY = (0x0e, 0x0f, 0x19, 0x1a)
INCDEC_FAMILY = (0x05, 0x06, 0x15, 0x16)
HEADER_ONLY = (0x0a, 0x07, 0x17, 0x10, 0x0b)
FLUSH_FAMILY = (0x08, 0x18)
UNIMPLEMENTED = (0x1c, 0x1d, 0x1e, 0x20, 0x21, 0x22, 0x23, 0x24)
IMPLEMENTED = GET_FAMILY + DELETE_FAMILY + SET_FAMILY + APPEND_FAMILY + INCDEC_FAMILY + HEADER_ONLY + FLUSH_FAMILY
QUIET = (0x09, 0x0d, 0x11, 0x12, 0x13, 0x14, 0x15, 0x16, 0x17, 0x18, 0x19, 0x1a)


def hdr0():
    return Agg('RequestHeader', [BV(0, 8), BV(0, 8), BV(0, 16), BV(0, 8), BV(0, 8), BV(0, 16), BV(0, 32), BV(0, 32), BV(0, 64)])


def new_codec(limit):
    return Agg('MemcacheBinaryCodec', [hdr0(), Enum('RequestParserState', 0), limit])


def wire_bytes(m, n, start=0):
    """concrete bytes [start, start+n) of the wire under model m"""
    out = bytearray()
    for i in range(start, start + n):
        v = m.eval(z3.Select(WIRE, BV(i)), model_completion=True)
        out.append(v.as_long() if z3.is_bv_value(v) else 0)
    return bytes(out)


def frame(op, key=b'', extras=b'', value=b'', opaque=0, cas=0, magic=0x80, body=None, keylen=None, extlen=None, dt=0):
    body_bytes = extras + key + value
    return struct.pack('>BBHBBHIIQ', magic, op, len(key) if keylen is None else keylen,
                       len(extras) if extlen is None else extlen, dt, 0,
                       len(body_bytes) if body is None else body, opaque, cas) + body_bytes


def parse_response(b):
    """independent parser of one response frame from bytes -> dict (used on native replay output)"""
    if len(b) < 24:
        return None
    magic, op, keylen, extlen, dt, status, body, opaque, cas = struct.unpack('>BBHBBHIIQ', b[:24])
    return dict(magic=magic, opcode=op, keylen=keylen, extlen=extlen, datatype=dt, status=status, body=body,
                opaque=opaque, cas=cas, extras=b[24:24 + extlen], key=b[24 + extlen:24 + extlen + keylen],
                value=b[24 + extlen + keylen:24 + body], total=len(b))

"""Wire-level single-request harness: one symbolic frame through the real decode -> BinaryHandler::handle_request ->
encode_message, from an arbitrary well-formed store state.  Key 0 of the map model is "the key named in the request",
key 1 is some other key (frame condition)."""
import z3
from mirse.values import *
from mirse.models.bytesm import Buf, Rope, VTerm, WIRE, blen, part_len
from .wire import Hdr, new_codec, IMPLEMENTED
from .world import St, World, mk, fld
from .decode_common import classify

limit = z3.BitVec('limit', 32)
total = z3.BitVec('total', 64)
HDR_WIDTHS = [8, 8, 16, 8, 8, 16, 32, 32, 64]


class Exec:
    """result of one request"""
    pass


def entry_objs(w, i):
    p, v, fl, cas, ts, ttl = w.entry(i)
    return dict(present=p, val=v, flags=fl, cas=cas, ts=ts, ttl=ttl)


def run_request(E, st, base=WIRE, policy=None, memory_limit=None, twin_encode=False, K=2):
    """execute one frame located at wire offset 0 of array `base`"""
    H = Hdr(0)
    w = World(E, st, policy, memory_limit)
    keys_seen = []

    def resolver(E, keyval):
        keys_seen.append(keyval)
        return 0
    w.map.key_resolver = resolver
    src = E.alloc(Buf(base, BV(0), total, None))
    codec = E.alloc(new_codec(limit))
    decode = E.fn('<MemcacheBinaryCodec as Decoder>', 'decode')
    x = Exec()
    x.w = w
    x.world = w
    x.keys_seen = keys_seen
    E.panic_out = lambda: x
    x.stage = 'decode'
    r = E.call(decode, [Ref(codec), Ref(src)])
    x.tag, x.req = classify(r)
    x.consumed = E.heap[src].off
    x.resp = None
    x.data = None
    x.twin = None
    if x.tag == 'some':
        x.stage = 'handle'
        hr = E.fn('BinaryHandler', 'handle_request')
        x.req_variant = x.req.var
        resp = E.call(hr, [w.handler, x.req])
        x.resp = resp
        if resp.var == 1:
            x.stage = 'encode'
            rc = E.alloc(resp.fields[0])
            enc = E.fn('MemcacheBinaryCodec', 'encode_message')
            msg = E.call(enc, [Ref(codec), Ref(rc)])
            x.data = fld(E, msg, 'ResponseMessage', 'data')
            if twin_encode:
                dst = E.alloc(Rope([], BV(0)))
                wm = E.fn('MemcacheBinaryCodec', 'write_msg')
                E.call(wm, [Ref(codec), Ref(rc), Ref(dst)])
                x.twin = E.heap[dst]
    x.stage = 'done'
    x.post = [entry_objs(w, i) for i in range(K)]
    x.cas_id = w.cas_id()
    x.usage = w.usage()
    x.codec = E.heap[codec]
    return x


def base_assume(E, st, one_frame=True):
    H = Hdr(0)
    for c in st.wellformed():
        E.assume(c)
    from .store_checks import pre_assumptions
    for c in pre_assumptions(st, st.K):
        E.assume(c)
    E.assume(z3.UGE(limit, 1024), z3.ULE(limit, 1 << 31), z3.ULE(total, 1 << 40))
    if one_frame:
        # the buffer holds exactly this frame (or, for an oversized one, at least its header)
        E.assume(z3.If(z3.UGT(H.body, limit), z3.UGE(total, 24), total == 24 + H.body64))


def parts_of(data):
    if isinstance(data, Rope):
        return data.parts
    if isinstance(data, Buf):
        return [('buf', data)]
    if isinstance(data, VTerm):
        return [('val', data.t)]
    raise Unsupported(f'response data {data!r}')


class RespView:
    """the encoded response parsed back by an independent reader of the rope"""

    def __init__(self, E, data):
        ps = parts_of(data)
        self.ok = len(ps) >= 9 and all(p[0] == 'bv' and p[1].size() == wdt for p, wdt in zip(ps[:9], HDR_WIDTHS))
        if not self.ok:
            return
        (self.magic, self.opcode, self.keylen, self.extlen, self.datatype, self.status, self.body, self.opaque, self.cas) = [p[1] for p in ps[:9]]
        self.payload = ps[9:]
        n = BV(0)
        for p in self.payload:
            n = n + part_len(E, p)
        self.payload_len = z3.simplify(n)


# ---------------------------------------------------------------------------------------------- native confirmation
def wire_keys(m):
    """the key bytes the witness frame names (where the real parsers take them from) and a different key for slot 1"""
    from .common import mval
    from .wire import wire_bytes, SET_FAMILY, INCDEC_FAMILY
    H = Hdr(0)
    op = mval(m, H.opcode)
    kl = mval(m, H.keylen)
    koff = 24 + (8 if op in SET_FAMILY else 20 if op in INCDEC_FAMILY else 0)
    k0 = wire_bytes(m, kl, koff) if 0 < kl <= 250 else b'key0'
    k1 = (k0[:-1] + bytes([k0[-1] ^ 0x55])) if len(k0) >= 250 else k0 + b'#'
    return k0, k1


def wire_scenario(m, st, policy=None, mlim=None, probe=True):
    """handler scenario: build the pre-state under the witness' own key, send the witness frame, probe both keys"""
    import struct
    from .common import mval
    from .wire import wire_bytes, frame
    from . import store_replay as SR
    C = SR.Concretizer(m)
    keys = wire_keys(m)
    steps = []
    order = sorted(range(st.K), key=lambda i: mval(m, st.ts[i]))
    for i in order:
        if not mval(m, st.present[i]):
            continue
        steps.append({'set_cas_id': mval(m, st.cas[i])})
        steps.append({'clock': mval(m, st.ts[i]),
                      'frame': frame(0x01, keys[i], struct.pack('>II', mval(m, st.flags[i]), mval(m, st.ttl[i])), C.val(st.val[i])).hex()})
    steps.append({'set_cas_id': mval(m, st.cas_id)})
    n = mval(m, total)
    idx = len(steps)
    steps.append({'clock': mval(m, st.now), 'frame': wire_bytes(m, n).hex()})
    if probe:
        for i in range(st.K):
            steps.append({'frame': frame(0x00, keys[i]).hex()})
    sc = {'kind': 'handler', 'policy': policy or 'none', 'item_limit': mval(m, limit), 'steps': steps}
    if policy:
        sc['memory_limit'] = mval(m, mlim)
    return sc, idx, C


def rope_bytes(m, data, C):
    from .common import mval
    from .wire import wire_bytes
    out = b''
    for p in parts_of(data):
        k = p[0]
        if k == 'bv':
            out += mval(m, p[1]).to_bytes(p[1].size() // 8, 'big')
        elif k == 'buf':
            b = p[1]
            if not b.base.eq(WIRE):
                raise ValueError('slice of a derived wire array')
            out += wire_bytes(m, mval(m, b.len), mval(m, b.off))
        elif k == 'val':
            out += C.val(p[1])
        elif k == 'lit':
            out += p[1]
        elif k == 'dec':
            out += str(mval(m, p[1])).encode()
        else:
            raise ValueError('part ' + k)
    return out


def confirm(ck, m, st, x, policy=None, mlim=None):
    """does the real code do on this witness what the engine's path says?  -> (True | None, description, scenario)
    compared: decode outcome, the complete response bytes, and what a get of each key returns afterwards"""
    from .common import mval
    from .wire import parse_response
    import struct
    H = Hdr(0)
    if mval(m, total) > (1 << 20):
        return None, 'witness frame too large to replay', None
    try:
        sc, idx, C = wire_scenario(m, st, policy, mlim)
        pred_resp = rope_bytes(m, x.data, C).hex() if x.data is not None else None
        probes = []
        now = mval(m, st.now)
        for i in range(st.K):
            e = x.post[i]
            pres = mval(m, e['present'])
            vis = False
            if pres:
                ttl, ts = mval(m, e['ttl']), mval(m, e['ts'])
                vis = ttl == 0 or now < ts + ttl
            if vis:
                probes.append((mval(m, e['flags']), mval(m, e['cas']), rope_bytes(m, e['val'], C)))
            else:
                probes.append(None)
    except ValueError as ex:
        return None, f'cannot concretise the witness: {ex}', None
    out = ck.replay([sc])[0]
    c = out['steps'][idx]
    diffs = []
    stage = getattr(x, 'stage', 'done')
    if stage != 'done':
        if 'panic' not in c:
            diffs.append(f'engine predicts a panic in {stage}, native: {c}')
    else:
        if 'panic' in c:
            diffs.append('native panic: ' + c['panic'])
        elif c.get('decode') != x.tag:
            diffs.append(f"decode predicted {x.tag} native {c.get('decode')}")
        elif x.tag == 'some' and c.get('response') != pred_resp:
            diffs.append(f"response predicted {pred_resp} native {c.get('response')}")
        if not diffs and x.tag == 'some':
            for i in range(st.K):
                pr = out['steps'][idx + 1 + i]
                got = None
                if pr.get('response'):
                    r = parse_response(bytes.fromhex(pr['response']))
                    if r['status'] == 0:
                        got = (struct.unpack('>I', r['extras'])[0], r['cas'], r['value'])
                if got != probes[i]:
                    diffs.append(f'key{i} afterwards: predicted {probes[i]} native {got}')
    k0, _ = wire_keys(m)
    desc = (f"frame {bytes.fromhex(sc['steps'][idx]['frame'])[:24].hex()}+{max(0, mval(m, total) - 24)}B at t={mval(m, st.now)} "
            f"(key {k0!r}; pre-state key0 {'cas=%d flags=%d ttl=%d stored_at=%d' % (mval(m, st.cas[0]), mval(m, st.flags[0]), mval(m, st.ttl[0]), mval(m, st.ts[0])) if mval(m, st.present[0]) else 'absent'}) "
            f"-> {c.get('decode', 'panic')} response {c.get('response', c.get('panic'))}")
    if diffs:
        return None, desc + ' | native differs from engine: ' + '; '.join(diffs), sc
    return True, desc, sc

"""C13 - item size limit: oversized requests are refused and skipped cleanly.

(1) decoder: for every valid header, body_length > limit <=> the frame is reported as ItemTooLarge, consuming the 24 header
    bytes only; a body within the limit is never rejected for size (all opcodes, limit 1 KiB .. 2^31);
(2) handler: ItemTooLarge is answered with status 0x03 echoing opcode and opaque, and changes nothing in the store;
(3) socket: the real read_frame + skip_bytes coroutines on [oversized frame][following bytes] with every read size symbolic
    (how much of the body had arrived with the header: nothing, part, all, all plus followers): read_frame returns ItemTooLarge
    and the next unread stream position is exactly 24 + body_length, no panic, the skip loop ends within the read bound.
"""
import z3
from .common import *
from .wire import *
from .world import St
from . import decode_common as D
from . import handler_common as HC
from . import sock_common as SC
from .sock_common import limit
from mirse.models.bytesm import Buf

H = Hdr(0)
tail = z3.BitVec('tail', 64)


def socket_harness(max_reads, end):
    total = 24 + H.body64 + tail

    def h(E):
        E.max_reads = max_reads
        E.assume(z3.UGE(limit, 1024), z3.ULE(limit, 1 << 31), z3.ULE(tail, 1 << 20))
        E.assume(H.magic == 0x80, z3.ULT(H.opcode, 0x25), H.datatype == 0, z3.UGT(H.body, limit))
        # what follows the oversized frame starts with a noop (only native replay looks at it)
        nb = 24 + H.body64
        noop = frame(0x0a, opaque=0x5a5a5a5a)
        E.assume(z3.Implies(z3.UGE(tail, 24), z3.And([z3.Select(HC.WIRE, nb + i) == noop[i] for i in range(24)])))
        conn = E.alloc(SC.new_connection(E, total, end))
        rf = E.fn('MemcacheBinaryConnection', 'read_frame')
        co = E.call(rf, [Ref(conn)])
        E.panic_out = lambda: (None, None, SC.fld(E, E.heap[conn], 'MemcacheBinaryConnection', 'buffer'),
                               SC.fld(E, E.heap[conn], 'MemcacheBinaryConnection', 'stream'))
        st_, r = SC.drive(E, co)
        c = E.heap[conn]
        return st_, r, SC.fld(E, c, 'MemcacheBinaryConnection', 'buffer'), SC.fld(E, c, 'MemcacheBinaryConnection', 'stream')
    return h, total


def read_sizes(m, E_nreads):
    ns = []
    for i in range(E_nreads):
        nm = 'n' if i == 0 else f'n!{i}'
        ns.append(mval(m, z3.BitVec(nm, 64)))
    return ns


def sock_scenario(m, total, nreads):
    n = mval(m, total)
    data = wire_bytes(m, n)
    cuts = []
    pos = 0
    for k in read_sizes(m, nreads):
        if k == 0:
            continue
        cuts.append(data[pos:pos + k])
        pos += k
    if pos < n:
        cuts.append(data[pos:])
    return {'kind': 'socket', 'item_limit': mval(m, limit), 'timeout_secs': 1,
            'conns': [{'chunks': [c.hex() for c in cuts if c], 'pause_ms': 120, 'read_ms': 700}]}, data


def socket_checks(ck, tier, for_prop='C13'):
    E = ck.E
    R = 3 if tier == 'quick' else 4
    ck.bounds['socket'] = f'[oversized frame][<= 1 MiB of following bytes], delivered in <= {R} reads of symbolic size; peer then silent or closing'
    ck.assumptions.append('socket model of mirse/models/tokio_io.py (a read returns a non-empty prefix of what was sent, at most the spare capacity)')
    for end in ('silent', 'eof'):
        h, total = socket_harness(R, end)
        res = ck.explore(h)
        small = [z3.ULE(limit, 2048), z3.ULE(H.body, 4096), tail == 24, z3.ULE(tail, 24)]
        for p in res:
            nreads = sum(1 for e in p.events if e[0] == 'read' and not isinstance(e[1], str))
            if p.status == 'panic':
                def on_w(m, where, p=p, nreads=nreads):
                    sc, data = sock_scenario(m, total, nreads)
                    out = ck.replay([sc])[0]['conns'][0]
                    got = bytes.fromhex(out['received'])
                    desc = f"limit {mval(m, limit)}, body_length {mval(m, H.body)}, reads {read_sizes(m, nreads)}: {p.info}; native: {len(got)} response bytes, closed={out['closed_by_server']}"
                    # a panicking connection task answers nothing for this request
                    return (True if len(got) == 0 else None), desc, sc
                ck.obligation(f'{for_prop}:socket: no panic while skipping an oversized body', p.pc, z3.BoolVal(False), {}, on_w, small)
                continue
            if p.status != 'ok':
                continue
            st_, r, buf, sock = p.out
            delivered_all = sock.rpos == total
            # memory: once the header of the oversized request is buffered nothing more is read into the connection buffer
            for ev in p.events:
                if ev[0] == 'read' and len(ev) == 3 and not isinstance(ev[1], str):
                    ck.obligation(f'{for_prop}:socket: an oversized body is never accumulated in the connection buffer', p.pc,
                                  z3.ULT(ev[2], 24), {}, None, small)
            if st_ == 'pending':
                # blocked on the socket: legitimate only if the peer has not yet sent the whole oversized frame
                ck.obligation(f'{for_prop}:socket: never waits for bytes beyond the oversized frame', p.pc,
                              z3.ULT(sock.rpos, 24 + H.body64), {}, None, small)
                continue
            tag = 'err' if r.var == 1 else ('none' if r.fields[0].var == 0 else 'some')
            if tag == 'err':
                # EOF inside the frame (end == 'eof' and the peer closed early) is the only legitimate error
                ck.obligation(f'{for_prop}:socket: no error on a completely delivered oversized frame', p.pc,
                              z3.ULT(sock.rpos, 24 + H.body64) if end == 'eof' else z3.BoolVal(False), {}, None, small)
                continue
            if tag == 'none':
                ck.obligation(f'{for_prop}:socket: clean end only on an empty stream', p.pc, total == 0, {}, None, small)
                continue
            req = r.fields[0].fields[0]
            names = {v: k for k, v in E.enums['BinaryRequest']}
            nxt = z3.If(buf.len == 0, sock.rpos, buf.off) if isinstance(buf, Buf) else sock.rpos

            def on_w(m, where, nreads=nreads):
                sc, data = sock_scenario(m, total, nreads)
                out = ck.replay([sc])[0]['conns'][0]
                got = bytes.fromhex(out['received'])
                first = parse_response(got)
                second = parse_response(got[24 + first['body']:]) if first and len(got) > 24 + first['body'] else None
                ok_ = bool(first and first['status'] == 3 and second and second['opcode'] == 0x0a and second['status'] == 0 and second['opaque'] == 0x5a5a5a5a)
                desc = f"limit {mval(m, limit)}, oversized body_length {mval(m, H.body)} then a noop, delivered as reads of {read_sizes(m, nreads)}(+rest): " \
                       f"server answered {len(got)} bytes ({got[:24].hex()}...), closed={out['closed_by_server']}: " + ('both requests answered' if ok_ else 'the noop behind the oversized request is NOT answered')
                return (None if ok_ else True), desc, sc
            ck.obligation(f'{for_prop}:socket: the oversized frame is reported as too large', p.pc, z3.BoolVal(names[req.var] == 'ItemTooLarge'), {}, on_w, small)
            ck.obligation(f'{for_prop}:socket: next request starts exactly body_length bytes after the header', p.pc, nxt == 24 + H.body64, {}, on_w, small)
            if isinstance(buf, Buf):
                ck.obligation(f'{for_prop}:socket: buffer stays contiguous with the socket position', p.pc,
                              z3.Or(buf.len == 0, buf.off + buf.len == sock.rpos), {}, on_w, small)
            ck.cover(f'skipped cleanly ({end})', True)
            n1 = z3.BitVec('n', 64)
            ck.cover('body entirely in the first read, with followers', list(p.pc) + [z3.UGT(n1, 24 + H.body64)])
            ck.cover('more than half of the body in the first read', list(p.pc) + [z3.UGT(2 * (n1 - 24), H.body64), z3.ULT(n1, 24 + H.body64), z3.UGT(n1, 24)])
            ck.cover('nothing of the body in the first read', list(p.pc) + [n1 == 24])
            ck.sample({'end': end, 'reads': nreads, 'result': names[req.var]})
    # native translator validation: the fixed splits of DESIGN 5.0
    big = frame(0x01, b'k', b'\0' * 8, b'v' * 1500, opaque=9)
    noop = frame(0x0a, opaque=5)
    scs = []
    for n1 in (24, 24 + 600, 24 + 1100, len(big), len(big) + 24):
        data = big + noop
        scs.append({'kind': 'socket', 'item_limit': 1024, 'timeout_secs': 1,
                    'conns': [{'chunks': [data[:n1].hex(), data[n1:].hex()] if n1 < len(data) else [data.hex()], 'pause_ms': 100, 'read_ms': 500}]})
    if for_prop == 'C13':
        for o in ck.replay(scs):
            got = bytes.fromhex(o['conns'][0]['received'])
            if len(got) == 61 and got[6:8] == b'\0\x03' and got[37 + 1] == 0x0a:
                ck.replays_ok += 1
            else:
                ck.replays_bad += 1
                ck.inconclusive.append('native loopback run of the fixed-split scenarios does not show the engine\'s result: ' + got.hex())


def client_level(ck, tier):
    """the whole connection loop on [oversized request with ANY opcode < 0x25, body fully sent][noop]: the oversized request is
    answered 0x03 echoing its opcode and opaque, and the noop behind it is served - for every opcode"""
    import struct
    from .C12 import native_seq
    E = ck.E
    st = St(1)
    opc = z3.BitVec('big_opcode', 8)
    body_len = 1025
    total_len = 24 + body_len + 24

    def h(E):
        E.assume(limit == 1024, z3.ULT(opc, 0x25))
        E.assume(z3.Not(st.present[0]), st.cas_id == 1, st.now == 0)
        for c in st.wellformed():
            E.assume(c)
        hdr = struct.pack('>BBHBBHIIQ', 0x80, 0, 1, 0, 0, 0, body_len, 0x4242, 0)
        for j, b in enumerate(hdr):
            if j == 1:
                E.assume(z3.Select(HC.WIRE, BV(1)) == opc)
                continue
            E.assume(z3.Select(HC.WIRE, BV(j)) == b)
            E.known_bytes[j] = b
        noop = frame(0x0a, opaque=0x5a5a5a5a)
        off = 24 + body_len
        for j, b in enumerate(noop):
            E.assume(z3.Select(HC.WIRE, BV(off + j)) == b)
            E.known_bytes[off + j] = b
        s = SC.Stream(0)
        s.total = BV(total_len)
        x = SC.run_client(E, st, s, end='eof', max_reads=3)
        x.nreads = sum(1 for e in E.events if e[0] == 'read' and not isinstance(e[1], str))
        return x
    res = ck.explore(h)
    for p in res:
        if p.status == 'panic':
            ck.obligation('client: no panic on an oversized request of any opcode', p.pc, z3.BoolVal(False), {}, None, [])
            continue
        if p.status != 'ok':
            continue
        x = p.out
        mdl = ck.solve(p.pc)
        if mdl is None or mdl == 'unknown':
            continue
        good = len(x.out) == 2
        cond = z3.BoolVal(good)
        if good:
            r0, r1 = HC.RespView(E, x.out[0]), HC.RespView(E, x.out[1])
            cond = z3.And(r0.status == 3, r0.opcode == opc, r0.opaque == 0x4242, r1.opcode == 0x0a, r1.status == 0, r1.opaque == 0x5a5a5a5a)

        def on_w(m, where, x=x):
            data = wire_bytes(m, total_len)
            cuts, pos = [], 0
            for i in range(x.nreads):
                k = mval(m, z3.BitVec('n' if i == 0 else f'n!{i}', 64))
                if k:
                    cuts.append(data[pos:pos + k])
                    pos += k
            if pos < total_len:
                cuts.append(data[pos:])
            sc = {'kind': 'socket', 'item_limit': 1024, 'timeout_secs': 1,
                  'conns': [{'chunks': [c.hex() for c in cuts if c], 'pause_ms': 60, 'read_ms': 500, 'end': 'hold'}]}
            out = ck.replay([sc])[0]
            nseq, nclosed = native_seq(out)
            op = mval(m, opc)
            desc = f"oversized request (body 1025 > limit 1024) with opcode 0x{op:02x} followed by a noop: server answered {nseq}, closed={nclosed}"
            ok_ = nseq == [(op, 0x4242), (0x0a, 0x5a5a5a5a)]
            return (None if ok_ else True), desc, sc
        ck.obligation('client: an oversized request of any opcode is answered 0x03 and the following request is served', p.pc, cond, {}, on_w, [])
        ck.cover('client: oversized then noop', True)


def run(tier, seed, replay_path=None):
    ck = Check('C13', tier, seed)
    if replay_path:
        return generic_replay(ck, replay_path)
    E = ck.engine()
    names = {v: k for k, v in E.enums['BinaryRequest']}
    ck.bounds.update({'decoder': '1 fully symbolic frame, item limit 1024 .. 2^31, all 256 opcodes', 'lengths': 'unbounded'})
    ck.assumptions += ['library models of DESIGN 3.3']
    # (1) decoder
    decode = E.fn('<MemcacheBinaryCodec as Decoder>', 'decode')
    res = ck.explore(D.harness_one(decode))
    HD = D.H
    small = [z3.ULE(D.total, 64), z3.ULE(D.limit, 4096)]
    for p in res:
        if p.status != 'ok':
            continue
        o = p.out
        header_ok = z3.And(HD.magic == 0x80, z3.ULT(HD.opcode, 0x25), HD.datatype == 0, z3.UGE(D.total, 24))
        over = z3.UGT(HD.body, D.limit)

        def on_w(m, where):
            from .C09 import scen_pair, native_outcome
            sa, sb, data, k = scen_pair(m)
            c = native_outcome(ck.replay([sa])[0])
            isl = c.get('variant') == 'ItemTooLarge'
            body, lim = mval(m, HD.body), mval(m, D.limit)
            desc = f"opcode 0x{mval(m, HD.opcode):02x} body_length {body} limit {lim}: decode -> {c['result']} {c.get('variant', '')} consuming {c['consumed_total']}"
            wrong = (isl != (body > lim)) if c['result'] == 'some' else (body > lim)
            return (True if wrong or (isl and c['consumed_total'] != 24) else None), desc, sa
        if o.tag == 'some':
            is_large = names[o.req.var] == 'ItemTooLarge'
            ck.obligation('decoder: too large <=> body_length > limit', p.pc, z3.BoolVal(is_large) == over, {}, on_w, small)
            if is_large:
                ck.obligation('decoder: an oversized frame consumes its header only', p.pc, o.consumed == 24, {}, on_w, small)
                ck.cover('decoder: oversized', True)
        else:
            ck.obligation('decoder: a valid oversized header is always reported (never an error, never "need more")', p.pc,
                          z3.Not(z3.And(header_ok, over)), {}, on_w, small)
    # (2) handler
    st = St(2)

    def h(E):
        HC.base_assume(E, st)
        E.assume(z3.UGT(H.body, HC.limit), H.magic == 0x80, z3.ULT(H.opcode, 0x25), H.datatype == 0)
        return HC.run_request(E, st)
    res = ck.explore(h)
    smallh = [z3.ULE(HC.total, 128), z3.ULE(st.cas_id, 1000), z3.ULE(st.now, 100000)]
    for p in res:
        if p.status != 'ok':
            continue
        x = p.out

        def on_w(m, where, x=x):
            return HC.confirm(ck, m, st, x)
        if x.data is None:
            ck.obligation('handler: an oversized request is answered', p.pc, z3.BoolVal(False), {}, on_w, smallh)
            continue
        r = HC.RespView(E, x.data)
        ck.obligation('handler: too large is answered 0x03 echoing opcode and opaque', p.pc,
                      z3.And(r.status == 3, r.opcode == H.opcode, r.opaque == H.opaque), {}, on_w, smallh)
        ck.obligation('handler: an oversized request changes nothing', p.pc,
                      z3.And([x.post[i]['present'] == st.present[i] for i in range(2)] +
                             [same(x.post[i]['val'], HC.VTerm(st.val[i])) for i in range(2)] +
                             [x.post[i]['cas'] == st.cas[i] for i in range(2)] + [x.cas_id == st.cas_id]), {}, on_w, smallh)
        ck.cover('handler: oversized answered', True)
    # (3) socket
    socket_checks(ck, tier)
    client_level(ck, tier)
    # the limit the decoder enforces is the configured one, in every runtime configuration (server construction path)
    from . import runtime_checks
    runtime_checks.run_plumbing(ck, tier, only='item-limit')
    for need in ('decoder: oversized', 'handler: oversized answered', 'skipped cleanly (silent)',
                 'body entirely in the first read, with followers', 'more than half of the body in the first read', 'nothing of the body in the first read'):
        ck.covers.setdefault(need, False)
    return ck.finish()


if __name__ == '__main__':
    main(run)

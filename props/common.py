"""Shared machinery of the per-property checks: engine set-up, obligations, witnesses, native replay,
known findings, evidence files and exit codes."""
import os, sys, json, time, hashlib, z3, traceback

VERIF = os.path.dirname(os.path.dirname(os.path.abspath(__file__)))
sys.path.insert(0, VERIF)
from mirse import prepare
from mirse.interp import Engine
from mirse.values import *


def load_known():
    p = os.path.join(VERIF, 'known_findings.json')
    if not os.path.exists(p):
        return {'findings': [], 'fixed': []}
    return json.load(open(p))


class Check:
    def __init__(self, pid, tier='quick', seed=0):
        self.pid = pid
        self.tier = tier
        self.seed = seed
        self.t0 = time.time()
        # wall-clock budget of the whole check: explorations stop when it is used up (the check then ends inconclusive, exit 2,
        # unless a violation was already confirmed); a watchdog thread (main) is the last resort for a single stuck solver call
        self.budget_s = float(os.environ.get('VERIF_BUDGET_S', 1500 if tier == 'quick' else 4 * 3600))
        self.known = [f for f in load_known().get('findings', []) if f['property'] == pid or pid in f.get('also_in', [])]
        self.known_seen = {}          # finding id -> description of the reproduced witness
        self.violations = []          # (what, scenario path)
        self.violated_names = set()
        self.gaps = []
        self.inconclusive = []        # reasons
        self.covers = {}              # name -> bool
        self.obligations = 0          # solver queries "pc and not property" discharged (unsat) or witnessed
        self.discharged = 0
        self.samples = []
        self.replays_ok = 0
        self.replays_bad = 0
        self.states = 0
        self.transitions = 0
        self.bounds = {}
        self.assumptions = []
        self.notes = []
        self.query_s = 0.0
        self.functions = {}
        self.E = None
        self.release = False
        self._witness_dir_cleaned = False

    # ------------------------------------------------------------------ set-up
    def engine(self):
        info = prepare.prepare(release=self.release, quiet=True)
        self.prep = info
        E = Engine(prepare.MIR, prepare.CRATE_SRC)
        E.seed = self.seed
        self.E = E
        return E

    def explore(self, harness, **kw):
        E = self.E
        b0 = E.stats['blocks']
        left = self.budget_s - (time.time() - self.t0)
        if left <= 0:
            self.inconclusive.append('time budget of the check used up before this exploration')
            return []
        kw['budget_s'] = min(kw.get('budget_s') or left, left)
        res = E.explore(harness, **kw)
        self.states += len(res)
        self.transitions += E.stats['blocks'] - b0
        for p in res:
            if p.status == 'inconclusive':
                self.inconclusive.append(p.info)
            for x in p.imprecise:
                self.notes.append('unmodelled call (havocked): ' + x)
        if getattr(E, 'truncated', False):
            self.inconclusive.append('exploration budget exhausted with %d prefixes left' % len(E.leftover))
        return res

    # ------------------------------------------------------------------ solver queries
    def solve(self, constraints, timeout_ms=None):
        """-> model | None (unsat) | 'unknown'.  z3 first (bit-blasting); when it does not answer quickly the same query is
        handed to cvc5 with its integer encoding of bit-vector arithmetic (--solve-bv-as-int=sum), which decides the linear
        length/accounting arithmetic at once; a cvc5 'sat' is turned back into a z3 model by fixing the scalar values."""
        full = timeout_ms or (20000 if self.tier == 'quick' else 120000)
        s = z3.Solver()
        cur = getattr(self, '_cur', '')
        hard = getattr(self, '_hard', None)
        if hard is None:
            hard = self._hard = {}
        # obligation kinds that needed the integer encoding before go there almost directly
        s.set('timeout', min(full, 250 if hard.get(cur, 0) >= 2 else 1500))
        s.set('random_seed', self.seed)
        s.add(*constraints)
        t = time.time()
        r = s.check()
        if r == z3.unknown:
            hard[cur] = hard.get(cur, 0) + 1
            r = self._cvc5(s, constraints, full)
        self.query_s += time.time() - t
        if os.environ.get('VERIF_DEBUG') and time.time() - t > 3:
            print(f'SLOW QUERY {time.time() - t:.1f}s -> {r if not isinstance(r, z3.ModelRef) else "sat"} [{getattr(self, "_cur", "")}]', flush=True)
        if isinstance(r, z3.ModelRef):
            return r
        if r == z3.unknown or r == 'unknown':
            self.inconclusive.append('solver unknown on a property query [' + str(getattr(self, '_cur', '')) + ']')
            return 'unknown'
        return s.model() if r == z3.sat else None

    def _cvc5(self, s, constraints, full_ms):
        import subprocess, tempfile, re
        self.cvc5_queries = getattr(self, 'cvc5_queries', 0) + 1
        consts = {}
        stack = list(constraints)
        seen = set()
        while stack:
            e = stack.pop()
            if e.get_id() in seen:
                continue
            seen.add(e.get_id())
            if z3.is_const(e) and e.decl().kind() == z3.Z3_OP_UNINTERPRETED and (z3.is_bv(e) or z3.is_bool(e)):
                consts[e.decl().name()] = e
            stack.extend(e.children())
        names = [n for n in consts if re.fullmatch(r'[A-Za-z_][A-Za-z0-9_@!.]*', n)]
        txt = '(set-logic ALL)\n(set-option :produce-models true)\n' + s.to_smt2().replace('(check-sat)', '') + '\n(check-sat)\n'
        q = txt
        with tempfile.NamedTemporaryFile('w', suffix='.smt2', dir=os.path.join(prepare.WORK), delete=False) as f:
            f.write(q)
            path = f.name
        try:
            o = subprocess.run(['cvc5', '--lang', 'smt2', '--solve-bv-as-int=sum', f'--tlimit={min(full_ms, 60000)}', path],
                               capture_output=True, text=True)
            out = o.stdout.strip()
            if '(error' in out or '(error' in o.stderr:
                return z3.unknown
            if out.startswith('unsat'):
                self.cvc5_unsat = getattr(self, 'cvc5_unsat', 0) + 1
                return z3.unsat
            if out.startswith('sat') and names:
                with open(path, 'a') as f:
                    f.write('(get-value (' + ' '.join('|%s|' % n if not re.fullmatch(r'[A-Za-z_][A-Za-z0-9_]*', n) else n for n in names) + '))\n')
                o = subprocess.run(['cvc5', '--lang', 'smt2', '--solve-bv-as-int=sum', f'--tlimit={min(full_ms, 60000)}', path],
                                   capture_output=True, text=True)
                vals = re.findall(r'\(\|?([^\s|()]+)\|? (#b[01]+|#x[0-9a-fA-F]+|true|false)\)', o.stdout)
                s2 = z3.Solver()
                s2.set('timeout', 20000)
                s2.add(*constraints)
                for n, v in vals:
                    c = consts.get(n)
                    if c is None:
                        continue
                    if v in ('true', 'false'):
                        s2.add(c == (v == 'true'))
                    elif v.startswith('#b'):
                        s2.add(c == z3.BitVecVal(int(v[2:], 2), c.size()))
                    else:
                        s2.add(c == z3.BitVecVal(int(v[2:], 16), c.size()))
                if s2.check() == z3.sat:
                    return s2.model()
                return z3.unknown
            # neither: give z3 its full time
            s.set('timeout', full_ms)
            r = s.check()
            return s.model() if r == z3.sat else r
        finally:
            try:
                os.unlink(path)
            except OSError:
                pass

    def witness(self, constraints, prefer=()):
        """a model of constraints, preferring (in order) the optional `prefer` constraints (small, replayable witnesses)"""
        cs = list(constraints)
        m = self.solve(cs)
        if m is None or m == 'unknown':
            return m
        for p in prefer:
            m2 = self.solve(cs + [p], timeout_ms=10000)
            if m2 is not None and m2 != 'unknown':
                cs.append(p)
                m = m2
        return m

    def obligation(self, name, pc, prop, regions=None, on_witness=None, prefer=()):
        """Decide `pc => prop`.  Witnesses are partitioned by the known-finding regions (role predicates defined by the
        harness): inside a listed region a reproduced witness is a KNOWN-FINDING, outside it is a VIOLATION.
        on_witness(model, where) -> (reproduced: bool|None, description, scenario) ; None = engine/native mismatch."""
        regions = regions or {}
        self._cur = name
        if name in self.violated_names:
            return False          # one confirmed violation per obligation kind is enough to fail the check
        neg = z3.Not(prop)
        self.obligations += 1
        listed = [(f, regions[f['region']]) for f in self.known if f.get('region') in regions]
        any_w = False
        for f, R in listed:
            if f['id'] in self.known_seen:
                continue
            m = self.witness(list(pc) + [neg, R], prefer)
            if m is None or m == 'unknown':
                continue
            any_w = True
            self._handle(name, m, f, on_witness)
        outside = [z3.Not(R) for _, R in listed]
        m = self.witness(list(pc) + [neg] + outside, prefer)
        if m == 'unknown':
            return False
        if m is not None:
            any_w = True
            self._handle(name, m, None, on_witness)
        if not any_w:
            self.discharged += 1
        return not any_w

    def _handle(self, name, m, finding, on_witness):
        if on_witness is None:
            rep, desc, scen = True, name, None
        else:
            rep, desc, scen = on_witness(m, finding['id'] if finding else None)
        if rep is None:
            self.replays_bad += 1
            p = self.save_scenario(name + '-mismatch', scen)
            self.inconclusive.append(f'witness for {name} did not reproduce natively (engine/model fault?): {desc}; scenario {p}')
            return
        if rep is False:
            # the native run shows the property holding on this input: the model over-approximates here
            self.replays_bad += 1
            p = self.save_scenario(name + '-spurious', scen)
            self.inconclusive.append(f'spurious witness for {name}: {desc}; scenario {p}')
            return
        self.replays_ok += 1
        if finding is not None:
            self.known_seen[finding['id']] = desc
            if scen is not None:
                self.save_scenario('known-' + finding['id'], scen)
        else:
            p = self.save_scenario(name, scen)
            self.violations.append((f'{name}: {desc}', p))
            self.violated_names.add(name)

    def inductive(self, name, pc, prop):
        """an obligation of the inductive argument only (state invariant preserved).  If it fails, the one-step result no
        longer extends to all histories: recorded as a gap (the bounded history checks remain the alarm), never an alarm."""
        self.obligations += 1
        self._cur = 'inductive:' + name.split(':')[-1]
        m = self.solve(list(pc) + [z3.Not(prop)])
        if m is None:
            self.discharged += 1
            return True
        if m != 'unknown' and name not in self.gaps:
            self.gaps.append(name)
        return False

    def cover(self, name, pc_list_or_bool):
        """reachability witness: must be satisfiable, else the harness is vacuous"""
        if isinstance(pc_list_or_bool, bool):
            ok = pc_list_or_bool
        else:
            m = self.solve(pc_list_or_bool)
            ok = m is not None and m != 'unknown'
        self.covers[name] = self.covers.get(name, False) or ok
        return ok

    def save_scenario(self, name, scen):
        d = os.path.join(prepare.WORK, 'witness', self.pid)
        if not self._witness_dir_cleaned:
            import shutil
            shutil.rmtree(d, ignore_errors=True)
            self._witness_dir_cleaned = True
        os.makedirs(d, exist_ok=True)
        safe = ''.join(c if c.isalnum() or c in '-_' else '_' for c in name)[:80]
        p = os.path.join(d, f'{safe}-{os.getpid()}-{len(os.listdir(d))}.json')
        with open(p, 'w') as f:
            json.dump(scen, f, indent=1)
        return p

    def replay(self, scenarios, timeout=120):
        return prepare.replay(scenarios, release=False, timeout=timeout)

    # ------------------------------------------------------------------ process-level parallelism
    def fork_map(self, items, fn, procs=None):
        """run fn(child_check, item) for every item in forked worker processes (the engine and its parsed MIR are shared
        copy-on-write); everything a child records (obligations, covers, violations, replays, coverage) is merged back."""
        import multiprocessing as mp
        procs = procs or min(len(items), max(1, (os.cpu_count() or 2) - 2), 14)
        if procs <= 1 or len(items) <= 1:
            for it in items:
                fn(self, it)
            return
        ctx = mp.get_context('fork')
        parent = self

        def work(it):
            ck = parent
            # fresh counters in the child; the parent's objects are only read
            ck.violations, ck.inconclusive, ck.samples, ck.notes, ck.gaps = [], [], [], [], []
            ck.known_seen, ck.covers, ck.violated_names = {}, {}, set()
            ck.obligations = ck.discharged = ck.replays_ok = ck.replays_bad = ck.states = ck.transitions = 0
            ck.query_s = 0.0
            ck.cvc5_queries = ck.cvc5_unsat = 0
            ck._witness_dir_cleaned = True
            E = ck.E
            E.executed = {}
            st0 = dict(E.stats)
            try:
                fn(ck, it)
            except Exception as ex:   # noqa
                import traceback
                ck.inconclusive.append(f'worker for {it!r} failed: {ex!r} ' + traceback.format_exc()[-600:])
            return dict(violations=ck.violations, inconclusive=ck.inconclusive, samples=ck.samples, notes=ck.notes, gaps=ck.gaps,
                        known_seen=ck.known_seen, covers=ck.covers, obligations=ck.obligations, discharged=ck.discharged,
                        replays_ok=ck.replays_ok, replays_bad=ck.replays_bad, states=ck.states, transitions=ck.transitions,
                        query_s=ck.query_s, cvc5=(ck.cvc5_queries, ck.cvc5_unsat),
                        executed={k: sorted(v) for k, v in E.executed.items()},
                        stats={k: E.stats[k] - st0.get(k, 0) for k in E.stats})
        global _FORK_WORK
        _FORK_WORK = work
        if not self._witness_dir_cleaned:
            import shutil
            shutil.rmtree(os.path.join(prepare.WORK, 'witness', self.pid), ignore_errors=True)
            self._witness_dir_cleaned = True
        with ctx.Pool(procs) as pool:
            outs = pool.map(_fork_call, list(items), chunksize=1)
        for o in outs:
            for w in o['violations']:
                if w[0].split(':')[0] not in self.violated_names or True:
                    self.violations.append(w)
            self.inconclusive += o['inconclusive']
            self.samples += o['samples'][:3]
            self.notes += o['notes']
            for g in o['gaps']:
                if g not in self.gaps:
                    self.gaps.append(g)
            for k, v in o['known_seen'].items():
                self.known_seen.setdefault(k, v)
            for k, v in o['covers'].items():
                self.covers[k] = self.covers.get(k, False) or v
            for k in ('obligations', 'discharged', 'replays_ok', 'replays_bad', 'states', 'transitions'):
                setattr(self, k, getattr(self, k) + o[k])
            self.query_s += o['query_s']
            self.cvc5_queries = getattr(self, 'cvc5_queries', 0) + o['cvc5'][0]
            self.cvc5_unsat = getattr(self, 'cvc5_unsat', 0) + o['cvc5'][1]
            for k, v in o['executed'].items():
                self.E.executed.setdefault(k, set()).update(v)
            for k, v in o['stats'].items():
                self.E.stats[k] = self.E.stats.get(k, 0) + v
        # one violation line per obligation kind is enough
        seen = set()
        uniq = []
        for w in self.violations:
            key = w[0].split(': ')[0]
            if key in seen:
                continue
            seen.add(key)
            uniq.append(w)
        self.violations = uniq

    def sample(self, s):
        if len(self.samples) < 12:
            self.samples.append(s)

    # ------------------------------------------------------------------ finish
    def finish(self, level='model_checking', extra=None):
        E = self.E
        for name, ok in self.covers.items():
            if not ok:
                self.inconclusive.append(f'cover "{name}" is unreachable: the harness is vacuous there')
        fns = {}
        if E is not None:
            for name, bbs in E.executed.items():
                f = E.fns[name]
                fns[f.short] = {'mir_sha': f.sha(), 'blocks_executed': len(bbs), 'blocks': len(f.blocks)}
        cov = {
            'states': max(self.states, 1),
            'transitions': max(self.transitions, 1),
            'traces_validated_against_impl': self.replays_ok,
            'samples': self.samples or ['(no sample recorded)'],
            'obligations': self.obligations,
            'discharged': self.discharged,
            'covers': self.covers,
            'bounds': self.bounds,
            'functions_encoded': fns,
            'solver': {'engine_checks': E.stats['checks'] if E else 0,
                       'engine_solver_s': round(E.stats['solver_s'], 2) if E else 0,
                       'property_query_s': round(self.query_s, 2), 'z3': z3.get_version_string(),
                       'queries_handed_to_cvc5_int_encoding': getattr(self, 'cvc5_queries', 0),
                       'of_which_unsat': getattr(self, 'cvc5_unsat', 0)},
            'native_replays_mismatching': self.replays_bad,
            'known_findings_reproduced': self.known_seen,
            'inconclusive': self.inconclusive[:20],
            'inductive_gaps': self.gaps,
            'notes': sorted(set(self.notes))[:40],
            'exhaustive': False,
            'explanation': 'states = symbolic paths explored through the MIR; transitions = MIR basic blocks executed; '
                           'obligations = solver queries "path condition and not property", discharged = those answered unsat',
        }
        if extra:
            cov.update(extra)
        ev = {
            'property_id': self.pid, 'tier': self.tier, 'seed': self.seed, 'level': level,
            'coverage': cov, 'assumptions': self.assumptions, 'wall_s': round(time.time() - self.t0, 2),
            'violations': len(self.violations),
        }
        os.makedirs(os.path.join(VERIF, 'evidence'), exist_ok=True)
        with open(os.path.join(VERIF, 'evidence', self.pid + '.json'), 'w') as f:
            json.dump(ev, f, indent=1, default=str)
        for fid, desc in self.known_seen.items():
            print(f'KNOWN-FINDING: property={self.pid} {fid}: {desc}')
        for g in self.gaps:
            print(f'NOTE: inductive step "{g}" not preserved on this tree: the claim rests on the bounded history check only')
        for what, p in self.violations:
            print(f'VIOLATION property={self.pid} replay={p}')
            print('  ' + what)
        print(f'{self.pid} [{self.tier}] paths={self.states} blocks={self.transitions} obligations={self.obligations} '
              f'discharged={self.discharged} replays_ok={self.replays_ok} wall={time.time() - self.t0:.1f}s')
        if self.violations:
            return 1
        if self.inconclusive:
            for r in self.inconclusive[:10]:
                print('INCONCLUSIVE: ' + str(r))
            return 2
        return 0


_FORK_WORK = None


def _fork_call(it):
    return _FORK_WORK(it)


def mval(m, e, default=0):
    v = m.eval(e, model_completion=True)
    if z3.is_bv_value(v):
        return v.as_long()
    if z3.is_true(v):
        return True
    if z3.is_false(v):
        return False
    return default


def same(a, b, modbase=False):
    """structural equality of two engine values as a z3 Bool (modbase: wire slices compared by offset/length only)"""
    from mirse.models.bytesm import Buf, Rope, VTerm
    if a is None and b is None:
        return z3.BoolVal(True)
    if z3.is_expr(a) and z3.is_expr(b):
        if a.sort() != b.sort():
            return z3.BoolVal(False)
        return a == b
    if isinstance(a, Enum) and isinstance(b, Enum):
        if a.var != b.var or len(a.fields) != len(b.fields):
            return z3.BoolVal(False)
        return z3.And([same(x, y, modbase) for x, y in zip(a.fields, b.fields)] or [z3.BoolVal(True)])
    if isinstance(a, Agg) and isinstance(b, Agg):
        if a.ty != b.ty or len(a.fields) != len(b.fields):
            return z3.BoolVal(False)
        return z3.And([same(x, y, modbase) for x, y in zip(a.fields, b.fields)] or [z3.BoolVal(True)])
    if isinstance(a, Buf) and isinstance(b, Buf):
        return z3.And(a.off == b.off, a.len == b.len) if (modbase or a.base.eq(b.base)) else z3.BoolVal(False)
    if isinstance(a, VTerm) and isinstance(b, VTerm):
        return a.t == b.t
    if isinstance(a, Rope) and isinstance(b, Rope):
        if len(a.parts) != len(b.parts):
            return z3.BoolVal(False)
        cs = []
        for p, q in zip(a.parts, b.parts):
            if p[0] != q[0]:
                return z3.BoolVal(False)
            if p[0] == 'buf':
                cs.append(same(p[1], q[1], modbase))
            elif p[0] in ('bv', 'val', 'dec'):
                cs.append(p[1] == q[1] if p[1].sort() == q[1].sort() else z3.BoolVal(False))
            elif p[0] == 'lit':
                cs.append(z3.BoolVal(p[1] == q[1]))
        return z3.And(cs or [z3.BoolVal(True)])
    if isinstance(a, Opaque) and isinstance(b, Opaque):
        return z3.BoolVal(True)
    if type(a) is type(b) and a is b:
        return z3.BoolVal(True)
    return z3.BoolVal(False)


def _descendants(pid):
    kids = {}
    for d in os.listdir('/proc'):
        if not d.isdigit():
            continue
        try:
            with open(f'/proc/{d}/stat') as f:
                st = f.read()
            ppid = int(st[st.rindex(')') + 2:].split()[1])
        except (OSError, ValueError):
            continue
        kids.setdefault(ppid, []).append(int(d))
    out, stack = [], [pid]
    while stack:
        for k in kids.get(stack.pop(), []):
            out.append(k)
            stack.append(k)
    return out


def _start_watchdog(limit_s):
    """a solver call that ignores its timeout must not hang the check for ever: after limit_s the process (and its workers,
    solver and driver subprocesses) is ended with exit 2 (inconclusive) - never a pass, never a VIOLATION"""
    import threading, signal

    def dog():
        time.sleep(limit_s)
        print(f'INCONCLUSIVE: the check did not finish within {int(limit_s)} s (watchdog); nothing it explored so far is reported', flush=True)
        for k in _descendants(os.getpid()):
            try:
                os.kill(k, signal.SIGKILL)
            except OSError:
                pass
        os._exit(2)
    threading.Thread(target=dog, daemon=True).start()


def main(run):
    import argparse
    ap = argparse.ArgumentParser()
    ap.add_argument('--tier', default=os.environ.get('VERIF_TIER', 'quick'))
    ap.add_argument('--replay', default=None)
    a = ap.parse_args()
    seed = int(os.environ.get('VERIF_SEED', '0') or 0)
    _start_watchdog(float(os.environ.get('VERIF_BUDGET_S', 1500 if a.tier == 'quick' else 4 * 3600)) * 1.5 + 120)
    try:
        rc = run(a.tier, seed, a.replay)
    except SystemExit:
        raise
    except Exception:
        traceback.print_exc()
        print('INCONCLUSIVE: the check itself failed (engine error above)')
        rc = 2
    sys.exit(rc)


def generic_replay(ck, path):
    """./check <id> --replay <scenario.json>: run the saved scenario(s) natively and print what the real code did"""
    ck.engine()
    sc = json.load(open(path))
    scs = sc if isinstance(sc, list) else [sc]
    outs = ck.replay(scs)
    print(json.dumps(outs, indent=1))
    return 0

"""C06 - conditional stores: add / replace / append / prepend semantics."""
from .common import *
from .store_checks import run_store_checks


def run(tier, seed, replay_path=None):
    ck = Check('C06', tier, seed)
    if replay_path:
        return generic_replay(ck, replay_path)
    ck.engine()
    run_store_checks(ck, ['add', 'replace', 'append', 'prepend'], {'kind', 'value', 'flags', 'vis', 'frame', 'cas'}, K=2, tier=tier)
    from .wire_rt import wire_roundtrip
    wire_roundtrip(ck, tier, ('concat', 'store'))
    return ck.finish()


if __name__ == '__main__':
    main(run)

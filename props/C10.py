"""C10 - no client input can crash, hang or bloat request processing.

(1) decoder on an arbitrary stream prefix, one-shot and split delivery: no feasible panic path (every checked-arithmetic
    assert, every Buf::get_uN / split_to / advance precondition), with overflow checks on;
(2) one arbitrary frame through decode -> handle_request -> encode_message from an arbitrary well-formed store state
    (both store variants): no feasible panic path;
(3) a request that reaches a command handler has magic 0x80, an implemented opcode, data type 0, key <= 250, extras <= 20,
    a non-empty key where one is required and body >= key + extras;
(4) buffer space is only ever reserved for bodies within the item size limit;
(5) socket level (read_frame / skip_bytes loops): see props/sock_common.py, run from here.
"""
import z3
from mirse.values import Enum
from .common import *
from .wire import *
from .world import St
from . import decode_common as D
from . import handler_common as HC
from .C11 import scen_frame
from mirse.models.bytesm import vlen

H = Hdr(0)
KEY_REQUIRED = GET_FAMILY + DELETE_FAMILY + SET_FAMILY + APPEND_FAMILY + INCDEC_FAMILY


def run(tier, seed, replay_path=None):
    ck = Check('C10', tier, seed)
    if replay_path:
        return generic_replay(ck, replay_path)
    E = ck.engine()
    names = {v: k for k, v in E.enums['BinaryRequest']}
    ck.bounds = {'decoder': '1 fully symbolic frame + arbitrary following bytes, stream <= 2^40 bytes, 1 or 2 deliveries',
                 'handler': '1 fully symbolic frame from an arbitrary well-formed state (2 keys), item limit 1024..2^31',
                 'arithmetic': 'overflow checks on (the dev/test profile)'}
    ck.assumptions = ['library models of DESIGN 3.3; allocation failure is out of scope', 'store state invariant of props/world.py']
    # ---------------- (1) decoder
    decode = E.fn('<MemcacheBinaryCodec as Decoder>', 'decode')
    res = ck.explore(D.harness_both(decode))
    small = [z3.ULE(D.total, 64), z3.ULE(D.total, 4096), z3.ULE(D.limit, 4096)]
    for p in res:
        if p.status == 'panic':
            def on_w(m, where, p=p):
                from .C09 import scen_pair
                sa, sb, data, k = scen_pair(m)
                oa, ob = ck.replay([sa, sb])
                pan = [c for o in (oa, ob) for c in o['calls'] if c['result'] == 'panic']
                desc = f"decode panics on a {len(data)}-byte stream (opcode 0x{mval(m, H.opcode):02x}, split at {k}): {pan[0]['msg'] if pan else p.info}"
                return (True if pan else None), desc, [sa, sb]
            ck.obligation('decode:no-panic', p.pc, z3.BoolVal(False), {}, on_w, small)
            continue
        if p.status != 'ok':
            continue
        ck.obligations += 1
        ck.discharged += 1
        a, b = p.out
        # memory: "need more bytes" is only ever answered for a body within the item limit (an oversized body is refused at
        # header time and never accumulated in the connection buffer)
        HD = D.H
        for o in (a, b):
            if o.tag == 'none':
                def on_mem(m, where):
                    from .C09 import scen_pair, native_outcome
                    sa, sb, data, k = scen_pair(m)
                    c = native_outcome(ck.replay([sa])[0])
                    desc = f"header announces body_length {mval(m, HD.body)} > item limit {mval(m, D.limit)}: decode answers '{c['result']}' with {len(data)} bytes buffered " \
                           f"(the connection would keep buffering up to the announced length)"
                    return (True if c['result'] == 'none' and mval(m, HD.body) > mval(m, D.limit) and len(data) >= 24 else None), desc, sa
                ck.obligation('decode: more bytes are awaited only for bodies within the item limit', p.pc,
                              z3.Or(z3.ULT(D.total, 24), z3.ULE(HD.body, D.limit), o.consumed == 0), {}, on_mem, small)
        # never loops: once a frame (an oversized one included) has been handed out, the parser is back in its initial state,
        # so that an empty buffer gives "need more" and not the same frame again
        if a.tag == 'some':
            stt = a.codec.fields[1]
            fresh_state = isinstance(stt, Enum) and stt.var == 0

            def on_ps(m, where):
                from .C09 import scen_pair
                sa, sb, data, k = scen_pair(m)
                body = mval(m, HD.body)
                n = 24 if body > mval(m, D.limit) else 24 + body
                sc = {'kind': 'decode', 'item_limit': mval(m, D.limit), 'chunks': [data[:n].hex()], 'loop': True}
                calls = ck.replay([sc])[0]['calls']
                somes = [c for c in calls if c['result'] == 'some']
                desc = f"one frame (opcode 0x{mval(m, H.opcode):02x}, body_length {body}, item limit {mval(m, D.limit)}) and nothing behind it: " \
                       f"decode hands out {len(somes)} frames" + (' and does not stop (64 calls)' if calls and calls[-1]['result'] == 'runaway' else '')
                return (True if len(somes) > 1 else None), desc, sc
            ck.obligation('decode: a frame is handed out once (parser back in its initial state)', p.pc, z3.BoolVal(fresh_state), {}, on_ps, small)
        for ev in p.events:
            if ev[0] == 'reserve':
                ck.obligation('decode:reserve-within-item-limit', p.pc, z3.ULE(ev[1], z3.ZeroExt(32, D.limit)), {}, None, small)
                ck.cover('reserve reached', True)
    ck.sample({'decoder_paths': len(res), 'panic_paths': sum(1 for p in res if p.status == 'panic')})
    # ---------------- (2)(3) handler level
    st = St(2)
    nval = [0]
    for policy in (None, 'random'):
        nval[0] = 0
        if policy == 'random' and tier == 'quick':
            pass
        mlim = z3.BitVec('mem_limit', 64) if policy else None

        def h(E, policy=policy, mlim=mlim):
            HC.base_assume(E, st)
            if policy:
                # eviction is the subject of C14/C16: here the limit is not reached
                E.assume(z3.ULE(st.usage, mlim), z3.ULT(mlim, 1 << 62), z3.UGE(mlim - st.usage, BV(1 << 33)))
            return HC.run_request(E, st, policy=policy, memory_limit=mlim)
        res = ck.explore(h)
        smallh = [z3.ULE(HC.total, 128), z3.ULE(st.cas_id, 1000), z3.ULE(st.now, 100000)]
        for p in res:
            if p.status == 'panic':
                x = p.out

                def on_w(m, where, p=p, policy=policy):
                    sc, idx = scen_frame(m, st)
                    if policy:
                        sc['policy'] = 'random'
                        sc['memory_limit'] = mval(m, mlim)
                    out = ck.replay([sc])[0]
                    c = out['steps'][idx]
                    desc = f"request opcode 0x{mval(m, H.opcode):02x} cas {mval(m, H.cas)} ({wire_bytes(m, min(mval(m, HC.total), 64)).hex()}): {c.get('panic', c)}"
                    return (True if 'panic' in c else None), desc, sc
                ck.obligation(f'handle:no-panic[{p.info[:60]}]', list(p.pc) + [z3.Or(H.keylen == 4, H.keylen == 0)], z3.BoolVal(False), {}, on_w, smallh)
                continue
            if p.status != 'ok':
                continue
            x = p.out
            ck.obligations += 1
            ck.discharged += 1
            if x.tag == 'some':
                v = names[x.req_variant]
                ck.cover('executed:' + v, True)
                if v not in ('ItemTooLarge', 'NotSupported'):
                    valid = z3.And(H.magic == 0x80, H.op_in(*IMPLEMENTED), H.datatype == 0, z3.ULE(H.keylen, 250), z3.ULE(H.extlen, 20),
                                   z3.Implies(H.op_in(*KEY_REQUIRED), H.keylen != 0), z3.UGE(H.body64, H.key64 + H.ext64),
                                   z3.ULE(H.body, HC.limit))
                    ck.obligation('only-valid-headers-are-executed', p.pc, valid, {},
                                  lambda m, where, x=x, policy=policy: HC.confirm(ck, m, st, x, policy, mlim), smallh)
                else:
                    ck.obligation('refused-without-touching-the-store', p.pc,
                                  z3.And([same(x.post[i]['val'], HC.VTerm(st.val[i])) for i in range(2)] +
                                         [x.post[i]['present'] == st.present[i] for i in range(2)]), {},
                                  lambda m, where, x=x, policy=policy: HC.confirm(ck, m, st, x, policy, mlim), smallh)
            elif x.tag == 'err':
                ck.cover('refused-by-decoder', True)
            # translator validation: the path's own witness, natively
            if nval[0] < (30 if tier == 'quick' else 10 ** 6):
                m = ck.witness(list(p.pc) + [z3.Or(H.keylen == 4, H.keylen == 0), z3.ULE(HC.total, 1 << 12)], smallh)
                if m is not None and m != 'unknown':
                    nval[0] += 1
                    sc, idx = scen_frame(m, st)
                    if policy:
                        sc['policy'] = 'random'
                        sc['memory_limit'] = mval(m, mlim)
                    c = ck.replay([sc])[0]['steps'][idx]
                    pred = (x.tag, None if x.data is None else mval(m, HC.RespView(E, x.data).status))
                    got = (c.get('decode'), parse_response(bytes.fromhex(c['response']))['status'] if c.get('response') else None)
                    if pred == got:
                        ck.replays_ok += 1
                    else:
                        ck.replays_bad += 1
                        ck.inconclusive.append(f'translator validation: engine {pred} native {got} on {sc["steps"][idx]}')
        ck.sample({'policy': policy or 'none', 'handler_paths': len(res), 'panic_paths': sum(1 for p in res if p.status == 'panic')})
    for need in ('executed:Set', 'executed:Increment', 'executed:ItemTooLarge', 'refused-by-decoder', 'reserve reached'):
        ck.covers.setdefault(need, False)
    from . import sock_common
    sock_common.c10_socket(ck, tier)
    return ck.finish()


if __name__ == '__main__':
    main(run)

"""Single-frame decoder harness shared by C09 / C10 / C13: the real `MemcacheBinaryCodec::decode` (and everything it
calls) on a fully symbolic stream prefix.

Symbolic: all header bytes, the item limit, `total` = bytes of the stream that will ever arrive (>= one frame or not),
`c1` = bytes delivered before the first decode call of the split run.
Run A ("one shot"): decode once with all `total` bytes buffered.
Run B ("split"):    decode with c1 bytes; if it answers "need more", deliver the rest and decode again.
"""
import z3
from mirse.values import *
from mirse.models.bytesm import Buf, WIRE
from .wire import Hdr, new_codec

total = z3.BitVec('total', 64)
c1 = z3.BitVec('c1', 64)
limit = z3.BitVec('limit', 32)
H = Hdr(0)
MAX_STREAM = 1 << 40


class Outcome:
    def __init__(self, tag, req, consumed, codec, nth):
        self.tag = tag              # 'err' | 'none' | 'some'
        self.req = req              # Enum BinaryRequest when tag == 'some'
        self.consumed = consumed    # BV64: bytes taken from the stream so far
        self.codec = codec
        self.ncalls = nth


def classify(r):
    if r.var == 1:
        return 'err', None
    o = r.fields[0]
    if o.var == 0:
        return 'none', None
    return 'some', o.fields[0]


def run_once(E, decode, avail_first, avail_all, resume=True):
    """decode with avail_first bytes, on "need more" deliver up to avail_all and decode once more"""
    src = E.alloc(Buf(WIRE, BV(0), avail_first, None))
    codec = E.alloc(new_codec(limit))
    r = E.call(decode, [Ref(codec), Ref(src)])
    tag, req = classify(r)
    n = 1
    if tag == 'none' and resume:
        b = E.heap[src]
        E.heap[src] = Buf(WIRE, b.off, avail_all - b.off, None)
        r = E.call(decode, [Ref(codec), Ref(src)])
        tag, req = classify(r)
        n = 2
    return Outcome(tag, req, E.heap[src].off, E.heap[codec], n)


def base_assumptions(E, max_limit=1 << 31):
    E.assume(z3.ULE(total, MAX_STREAM), z3.ULE(c1, total), z3.UGE(limit, 1024), z3.ULE(limit, max_limit))


def harness_both(decode):
    def h(E):
        base_assumptions(E)
        a = run_once(E, decode, total, total, resume=False)
        b = run_once(E, decode, c1, total, resume=True)
        return a, b
    return h


def harness_one(decode):
    def h(E):
        base_assumptions(E)
        return run_once(E, decode, total, total, resume=False)
    return h

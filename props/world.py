"""Builds the object graph of a memcrs server inside the engine: MemoryStore (+ optional RandomPolicy) behind
`Arc<dyn Cache>`, MemcStore, BinaryHandler, with a fully symbolic pre-state.

State vector (what the store-level properties quantify over), K keys:
  per key i : present_i: Bool, val_i: Val, flags_i: BV32, cas_i: BV64, ts_i: BV64 (time of last mutation), ttl_i: BV32
  global    : cas_id: BV64 (next counter value), now: BV64 (server clock), usage: BV64 (RandomPolicy accounting)
"""
import z3
from mirse.values import *
from mirse.models.bytesm import Val, VTerm, vlen, val_axioms
from mirse.models.dashmap import new_map, KeyTok
from mirse.models.atomic import SymTimer


class St:
    """symbolic state vector; `sfx` distinguishes copies (BMC steps)"""

    def __init__(self, K, sfx='', with_policy=False):
        self.K = K
        self.sfx = sfx
        self.present = [z3.Bool(f'present{i}{sfx}') for i in range(K)]
        self.val = [z3.Const(f'val{i}{sfx}', Val) for i in range(K)]
        self.flags = [z3.BitVec(f'flags{i}{sfx}', 32) for i in range(K)]
        self.cas = [z3.BitVec(f'cas{i}{sfx}', 64) for i in range(K)]
        self.ts = [z3.BitVec(f'ts{i}{sfx}', 64) for i in range(K)]
        self.ttl = [z3.BitVec(f'ttl{i}{sfx}', 32) for i in range(K)]
        self.cas_id = z3.BitVec(f'cas_id{sfx}', 64)
        self.now = z3.BitVec(f'now{sfx}', 64)
        self.usage = z3.BitVec(f'usage{sfx}', 64)
        self.with_policy = with_policy
        # scalar fields of the store objects that this harness does not know by name (added by a change to /repo): discovered
        # from the real constructors, threaded through summaries and histories like the known state components
        self.extra = {}
        self.extra_init = {}

    def ensure_extra(self, key, init):
        if key not in self.extra:
            nm = 'x_' + '_'.join(key) + self.sfx
            self.extra[key] = z3.Bool(nm) if z3.is_bool(init) else z3.BitVec(nm, init.size())
            self.extra_init[key] = init
        return self.extra[key]

    def clone_extras_from(self, base):
        for key, init in base.extra_init.items():
            self.ensure_extra(key, init)

    def vars(self):
        v = []
        for i in range(self.K):
            v += [self.present[i], self.val[i], self.flags[i], self.cas[i], self.ts[i], self.ttl[i]]
        v += [self.cas_id, self.now, self.usage]
        v += [self.extra[k] for k in sorted(self.extra)]
        return v

    def wellformed(self):
        """representation invariant assumed of every reachable state (checked to be inductive by C01's step check):
        stored CAS values are non-zero, timestamps are not in the future, clock and counter far from wrap-around (counter < 2^63 + 2^62: see the counter obligation in store_checks)"""
        if getattr(self, 'free_extras', False):
            # history checks (props/bmc.py): reachability is defined by the initial state and the transitions alone; only the
            # stated bounds on clock and value length remain
            return [z3.ULT(self.now, 1 << 40)] + [z3.ULT(vlen(self.val[i]), 1 << 31) for i in range(self.K)]
        cs = [z3.ULT(self.now, 1 << 40), z3.UGE(self.cas_id, 1), z3.ULT(self.cas_id, (1 << 63) + (1 << 62))]
        for i in range(self.K):
            cs += [z3.Implies(self.present[i], z3.And(self.cas[i] != 0, z3.ULE(self.ts[i], self.now)))]
            cs += [z3.ULT(vlen(self.val[i]), 1 << 31)]   # stated bound: stored values shorter than 2 GiB
        return cs

    def live(self, i, now=None):
        now = self.now if now is None else now
        return z3.And(self.present[i], z3.Or(self.ttl[i] == 0, z3.ULT(now, self.ts[i] + z3.ZeroExt(32, self.ttl[i]))))


def mk(E, ty, **kw):
    names = E.structs[ty]
    missing = set(kw) - set(names)
    if missing:
        raise Unsupported(f'struct {ty} has no fields {missing} (has {names})')
    return Agg(ty, [kw.get(n) for n in names])


def fld(E, v, ty, name):
    return v.fields[E.structs[ty].index(name)]


def record(E, val, cas, flags, ttl, ts):
    meta = mk(E, 'CacheMetaData', timestamp=ts, cas=cas, flags=flags, time_to_live=ttl)
    return mk(E, 'Record', header=meta, value=VTerm(val) if z3.is_expr(val) else val)


class World:
    def __init__(self, E, st, policy=None, memory_limit=None, clock_mode='step'):
        self.E = E
        self.st = st
        recs = [record(E, st.val[i], st.cas[i], st.flags[i], st.ttl[i], st.ts[i]) for i in range(st.K)]
        self.map = new_map(E, st.K, records=recs, present=list(st.present))
        self.timer = SymTimer(st.now, clock_mode)
        self.timer_cell = E.alloc(self.timer)
        self.extra_cells = {}
        ms = self._construct('MemoryStore', [Ref(self.timer_cell)], dict(memory=self.map, timer=Ref(self.timer_cell), cas_id=st.cas_id))
        self.ms_cell = E.alloc(ms)
        top = Ref(self.ms_cell)
        self.policy_cell = None
        if policy == 'random':
            rp = self._construct('RandomPolicy', [Ref(self.ms_cell), memory_limit],
                                 dict(store=Ref(self.ms_cell), memory_limit=memory_limit, memory_usage=st.usage))
            self.policy_cell = E.alloc(rp)
            top = Ref(self.policy_cell)
        self.cache = top
        self.memc_cell = E.alloc(self._construct('MemcStore', [top], dict(store=top)))
        self.memc = Ref(self.memc_cell)
        self.handler_cell = E.alloc(self._construct('BinaryHandler', [Ref(self.memc_cell)], dict(storage=Ref(self.memc_cell))))
        self.handler = Ref(self.handler_cell)
        for a in val_axioms():
            E.assume(a)

    def _construct(self, ty, args, known):
        """build the object with the crate's own constructor (so that fields this harness does not know are initialised the
        way the code initialises them), then put the harness' symbolic state into the fields it knows"""
        E = self.E
        names = E.structs[ty]
        try:
            obj = E.call(E.fn(ty, 'new'), list(args))
        except (KeyError, Unsupported):
            obj = None
        vals = []
        for i, n in enumerate(names):
            if n in known:
                vals.append(known[n])
                continue
            init = obj.fields[i] if obj is not None and i < len(obj.fields) else None
            if init is not None and z3.is_expr(init) and (z3.is_bv(init) or z3.is_bool(init)):
                vals.append(self.st.ensure_extra((ty, n), z3.simplify(init)))
            else:
                vals.append(init)
        missing = set(known) - set(names)
        if missing:
            raise Unsupported(f'struct {ty} has no fields {missing} (has {names})')
        return Agg(ty, vals)

    def extras(self):
        """current values of the discovered extra fields"""
        E = self.E
        out = {}
        cells = {'MemoryStore': self.ms_cell, 'RandomPolicy': self.policy_cell, 'MemcStore': self.memc_cell, 'BinaryHandler': self.handler_cell}
        for (ty, n) in self.st.extra:
            c = cells.get(ty)
            if c is None:
                out[(ty, n)] = self.st.extra[(ty, n)]
                continue
            out[(ty, n)] = fld(E, E.heap[c], ty, n)
        return out

    # ---- read the post-state back as terms
    def present(self, i):
        return self.E.heap[self.map.slots[i].present_cell]

    def rec(self, i):
        return self.E.heap[self.map.slots[i].rec_cell]

    def entry(self, i):
        """(present, value object, flags, cas, ts, ttl) of slot i"""
        E = self.E
        r = self.rec(i)
        if r is None:
            return self.present(i), None, None, None, None, None
        h = fld(E, r, 'Record', 'header')
        return (self.present(i), fld(E, r, 'Record', 'value'), fld(E, h, 'CacheMetaData', 'flags'),
                fld(E, h, 'CacheMetaData', 'cas'), fld(E, h, 'CacheMetaData', 'timestamp'),
                fld(E, h, 'CacheMetaData', 'time_to_live'))

    def cas_id(self):
        return fld(self.E, self.E.heap[self.ms_cell], 'MemoryStore', 'cas_id')

    def usage(self):
        if self.policy_cell is None:
            return None
        return fld(self.E, self.E.heap[self.policy_cell], 'RandomPolicy', 'memory_usage')

    def set_clock(self, t):
        self.timer.now = t

"""C11 - every response is a well-formed, correctly correlated frame.

One fully symbolic request frame (every opcode, every field) from an arbitrary well-formed store state through the real
decode -> handle_request -> encode_message.  The encoded rope is parsed back by an independent reader and checked against
the protocol's layout rules; the tokio-util `Encoder` twin (write_msg) must produce the same bytes.
"""
import z3, struct
from .common import *
from .wire import *
from .world import St
from . import handler_common as HC
from .handler_common import limit, total, RespView
from mirse.models.bytesm import blen, part_len, Buf

STATUS_TABLE = [0x00, 0x01, 0x02, 0x03, 0x04, 0x05, 0x06, 0x20, 0x21, 0x81, 0x82, 0x83, 0x84, 0x85, 0x86]
H = Hdr(0)


def harness(st):
    def h(E):
        HC.base_assume(E, st)
        return HC.run_request(E, st, twin_encode=True)
    return h


def scen_frame(m, st, nframe=None):
    """handler scenario for the single-frame witness: pre-state of key0 + the frame"""
    from . import store_replay as SR
    C = SR.Concretizer(m)
    steps = SR.setup_steps(m, st, C)
    # the request's key must be the one the pre-state was stored under: rewrite the key bytes of the frame
    n = mval(m, total)
    data = bytearray(wire_bytes(m, min(n, 1 << 16)))
    kl = mval(m, H.keylen)
    el = mval(m, H.extlen)
    op = mval(m, H.opcode)
    # where the real parsers take the key from (they do not use extras_length to locate it)
    koff = 24 + (8 if op in SET_FAMILY else 20 if op in INCDEC_FAMILY else 0)
    key = SR.key_bytes(0)
    if kl == len(key) and koff + kl <= len(data):
        data[koff:koff + kl] = key
    steps.append({'clock': mval(m, st.now), 'frame': bytes(data).hex()})
    return {'kind': 'handler', 'policy': 'none', 'item_limit': mval(m, limit), 'steps': steps}, len(steps) - 1


def flat_parts(ropes):
    out = []
    for d in ropes:
        for q in HC.parts_of(d):
            if q[0] == 'lit' and len(q[1]) == 0:
                continue
            out.append(q)
    return out


def parts_equal(a, b):
    """-> z3 formula (or python False): two flattened part lists denote the same bytes part by part"""
    if len(a) != len(b):
        return False
    cs = []
    for x, y in zip(a, b):
        if x[0] != y[0]:
            return False
        if x[0] == 'bv':
            if x[1].size() != y[1].size():
                return False
            cs.append(x[1] == y[1])
        elif x[0] == 'buf':
            if not x[1].base.eq(y[1].base):
                return False
            cs.append(z3.And(x[1].off == y[1].off, x[1].len == y[1].len))
        elif x[0] in ('val', 'dec'):
            cs.append(x[1] == y[1])
        elif x[0] == 'lit':
            if x[1] != y[1]:
                return False
        else:
            return False
    return z3.And(cs) if cs else z3.BoolVal(True)


def native_blocked_writer(ck, op):
    """a client that stops reading in the middle of a large response for longer than the server's timeout and then resumes: whatever
    the server decides (wait, or drop the connection), what the client finally reads must be whole frames - a response may be missing
    only if the connection was closed"""
    key = b'big'
    val = bytes(range(256)) * 32768      # 8 MiB
    setf = frame(0x01, key, b'\0' * 8, val, opaque=1)
    getf = frame(op, key, opaque=2)
    noop = frame(0x0a, opaque=3)
    sc = {'kind': 'socket', 'item_limit': 1 << 24, 'timeout_secs': 1,
          'conns': [{'chunks': [setf.hex(), getf.hex()], 'pause_ms': 100, 'read_ms': 0, 'end': 'hold', 'rcvbuf': 16384, 'then_after_ms': 1500, 'then_chunks': [noop.hex()], 'then_read_ms': 800}]}
    out = ck.replay([sc], timeout=90)[0]
    c = out['conns'][0]
    got = bytes.fromhex(c.get('received', '')) + bytes.fromhex(c.get('later_received', ''))
    pos, frames_, bad = 0, [], None
    while pos < len(got):
        if len(got) - pos < 24:
            bad = f'{len(got) - pos} stray bytes at the end'
            break
        r = parse_response(got[pos:pos + 24])
        if r['magic'] != 0x81:
            bad = f'no response header at byte {pos} (magic 0x{r["magic"]:02x}): the stream is out of frame'
            break
        if pos + 24 + r['body'] > len(got):
            if c.get('closed_by_server') or c.get('later_closed'):
                break       # the server gave up on the connection in the middle of a response: allowed, nothing follows
            bad = f"frame at byte {pos} announces {r['body']} body bytes, {len(got) - pos - 24} follow on a connection that stays open"
            break
        frames_.append((r['opcode'], r['opaque']))
        pos += 24 + r['body']
    desc = f"8 MiB value, get 0x{op:02x}, client stops reading for 1.6 s (server write/idle timeout 1 s), then sends a noop and reads: frames {frames_}" + (f' - {bad}' if bad else '')
    return (True if bad else None), desc, sc


def connection_level(ck, tier):
    """what reaches the socket is what the encoder produces: the real Client::handle on [get-family request on a stored item of
    any length up to 2 MiB][noop]; every response handed to MemcacheBinaryConnection::write is encoded separately with
    encode_message (whose output the handler-level part of this check proves well-formed) and must equal, part by part, the
    bytes written to the socket, in order and with nothing in between"""
    from . import sock_common as SC
    from .C12 import native_seq
    from mirse.models.bytesm import vlen
    from . import store_replay as SR
    E = ck.E
    st = St(1)
    key = b'kk'
    for op in GET_FAMILY:
        req = frame(op, key, opaque=0x11223344) + frame(0x0a, opaque=0x5a5a5a5a)

        def h(E, req=req):
            E.assume(SC.limit == (1 << 22), st.present[0], st.live(0), z3.ULE(vlen(st.val[0]), 1 << 21), st.now == 1000, z3.ULE(st.cas_id, 1000))
            for c in st.wellformed():
                E.assume(c)
            from .store_checks import pre_assumptions
            for c in pre_assumptions(st, 1):
                E.assume(c)
            for j, b in enumerate(req):
                E.assume(z3.Select(HC.WIRE, BV(j)) == b)
                E.known_bytes[j] = b
            s = SC.Stream(0)
            s.total = BV(len(req))
            x = SC.run_client(E, st, s, end='eof', max_reads=3, wslow=True)
            x.nreads = sum(1 for e in E.events if e[0] == 'read' and not isinstance(e[1], str))
            x.write_blocked = any(e[0] in ('write', 'try_write', 'writable') and len(e) > 1 and e[1] in ('blocked', 'wouldblock') for e in E.events)
            x.timed_out = any(e[0] == 'timeout' for e in E.events)
            # the encoder's own output for every response that was handed to the connection
            enc = E.fn('MemcacheBinaryCodec', 'encode_message')
            codec = E.alloc(new_codec(SC.limit))
            x.expected = []
            for resp in x.responses:
                rc = E.alloc(resp)
                msg = E.call(enc, [Ref(codec), Ref(rc)])
                x.expected.append(HC.fld(E, msg, 'ResponseMessage', 'data'))
            return x
        res = ck.explore(h)
        for p in res:
            if p.status == 'panic':
                ck.obligation(f'connection: no panic while answering opcode 0x{op:02x}', p.pc, z3.BoolVal(False), {}, None, [])
                continue
            if p.status != 'ok':
                continue
            x = p.out
            try:
                got_p, exp_p = flat_parts(x.out), flat_parts(x.expected)
                if x.state == 'pending' and x.write_blocked and not x.timed_out:
                    # the peer stopped reading and the task is suspended in a write: what has been written so far is a prefix
                    # (whole responses) of what the encoder produces; the rest follows when the peer reads again
                    exp_p = exp_p[:len(got_p)]
                eq = parts_equal(got_p, exp_p)
            except Unsupported:
                eq = False

            def on_w(m, where, x=x, op=op):
                cut = any(q[0] == 'cut' for d in x.out for q in HC.parts_of(d))
                if cut:
                    # a partial write: needs a response larger than the send buffer and a client that reads late
                    from .C12 import native_short_write
                    return native_short_write(ck, ['a response was handed to the socket with a single write whose count is ignored'])
                if x.write_blocked:
                    return native_blocked_writer(ck, op)
                try:
                    C = SR.Concretizer(m)
                    val = C.val(st.val[0])
                except ValueError as ex:
                    return None, f'cannot concretise: {ex}', None
                fl = mval(m, st.flags[0])
                setf = frame(0x01, key, struct.pack('>II', fl, 0), val, opaque=7)
                sc = {'kind': 'socket', 'item_limit': 1 << 22, 'timeout_secs': 2,
                      'conns': [{'chunks': [setf.hex(), req.hex()], 'pause_ms': 60, 'read_ms': 1200, 'end': 'hold'}]}
                out = ck.replay([sc])[0]
                got = bytes.fromhex(out['conns'][0].get('received', '')) + bytes.fromhex(out['conns'][0].get('later_received', ''))
                # an independent reader: frame by frame, each body_length must be exactly what follows
                pos, frames_, bad = 0, [], None
                while pos < len(got):
                    if len(got) - pos < 24:
                        bad = f'{len(got) - pos} stray bytes at the end'
                        break
                    r = parse_response(got[pos:])
                    if r['magic'] != 0x81 or pos + 24 + r['body'] > len(got):
                        bad = f"frame at byte {pos}: magic 0x{r['magic']:02x}, body_length {r['body']} with {len(got) - pos - 24} bytes left"
                        break
                    frames_.append(r)
                    pos += 24 + r['body']
                want_key = key if op in (0x0c, 0x0d) else b''
                if bad is None:
                    g = [f for f in frames_ if f['opcode'] == op]
                    if len(g) != 1 or g[0]['status'] != 0 or g[0]['key'] != want_key or g[0]['value'] != val or g[0]['opaque'] != 0x11223344:
                        bad = f"get response: {[(hex(f['opcode']), f['status'], f['keylen'], len(f['value'])) for f in g]} (expected 1 hit with key {want_key!r} and the {len(val)}-byte value)"
                    elif not frames_ or frames_[-1]['opcode'] != 0x0a or frames_[-1]['opaque'] != 0x5a5a5a5a:
                        bad = 'the noop behind the get is not answered in step'
                desc = f"get opcode 0x{op:02x} on a {len(val)}-byte item followed by a noop over loopback: " + (bad or 'stream well-formed')
                return (True if bad else None), desc, sc
            small = [z3.ULE(vlen(st.val[0]), 100), z3.ULE(vlen(st.val[0]), 70000), z3.ULE(vlen(st.val[0]), 300000)]
            ck.obligation(f'connection: the bytes written for opcode 0x{op:02x} and the noop are exactly the encoder\'s output, in order', p.pc,
                          eq if not isinstance(eq, bool) else z3.BoolVal(eq), {}, on_w, small)
            ck.cover(f'connection: get 0x{op:02x} answered', len(x.responses) >= 1)
    ck.bounds['connection'] = 'Client::handle on [get-family request][noop], stored value of any length <= 2 MiB, <= 3 reads'


def run(tier, seed, replay_path=None):
    ck = Check('C11', tier, seed)
    if replay_path:
        return generic_replay(ck, replay_path)
    E = ck.engine()
    st = St(2)
    ck.bounds = {'request': '1 fully symbolic frame: all 256 opcodes, all header fields, body bytes', 'store': 'arbitrary well-formed state of the addressed key + one other key',
                 'item_limit': '1024 .. 2^31', 'lengths': 'unbounded'}
    ck.assumptions = ['the buffer holds exactly the request frame', 'library models of DESIGN 3.3', 'key identity: the request key names map slot 0']
    res = ck.explore(harness(st))
    names = {v: k for k, v in E.enums['BinaryRequest']}
    from mirse.models.bytesm import vlen
    small = [z3.ULE(total, 128), z3.ULE(st.cas_id, 1000), z3.ULE(st.now, 100000), H.keylen == 4] + \
            [z3.ULE(vlen(v), 1 << 17) for v in st.val] + [z3.ULE(vlen(v), 64) for v in st.val]
    nval = 0
    for p in res:
        if p.status != 'ok':
            continue
        x = p.out
        if x.tag != 'some':
            continue
        v = names[x.req_variant]
        if x.data is None:
            ck.cover('silent:' + v, True)
            continue
        ck.cover('response:' + v, True)
        r = RespView(E, x.data)
        pc = p.pc

        def on_w(m, where, x=x):
            sc, idx = scen_frame(m, st)
            out = ck.replay([sc])[0]
            c = out['steps'][idx]
            if c.get('response') is None:
                return None, f'native produced no response: {c}', sc
            rb = bytes.fromhex(c['response'])
            pr = parse_response(rb)
            desc = f"request opcode 0x{mval(m, H.opcode):02x} opaque {mval(m, H.opaque)} -> response {rb[:24].hex()} + {len(rb) - 24} payload bytes"
            bad = (pr['magic'] != 0x81 or pr['opcode'] != mval(m, H.opcode) or pr['opaque'] != mval(m, H.opaque) or pr['datatype'] != 0
                   or pr['status'] not in STATUS_TABLE or pr['total'] != 24 + pr['body'] or pr['extlen'] + pr['keylen'] > pr['body'])
            return (True if bad else None), desc, sc
        if not r.ok:
            ck.obligation('header-layout', pc, z3.BoolVal(False), {}, on_w, small)
            continue
        ck.sample({'request': v, 'status': str(z3.simplify(r.status)), 'payload_parts': [q[0] for q in r.payload]})
        ck.obligation('magic-opcode-opaque-datatype', pc,
                      z3.And(r.magic == 0x81, r.opcode == H.opcode, r.opaque == H.opaque, r.datatype == 0), {}, on_w, small)
        ck.obligation('status-in-table', pc, z3.Or([r.status == s for s in STATUS_TABLE]), {}, on_w, small)
        ck.obligation('body-length-is-what-follows', pc, z3.ZeroExt(32, r.body) == r.payload_len, {}, on_w, small)
        ck.obligation('extras-and-key-fit-in-body', pc,
                      z3.ULE(z3.ZeroExt(56, r.extlen) + z3.ZeroExt(48, r.keylen), z3.ZeroExt(32, r.body)), {}, on_w, small)
        # layout per outcome class
        pl = r.payload
        is_get = H.op_in(*GET_FAMILY)
        is_getk = H.op_in(0x0c, 0x0d)
        is_cnt = H.op_in(*INCDEC_FAMILY)
        okst = r.status == 0
        hit_layout = z3.BoolVal(False)
        if len(pl) >= 1 and pl[0][0] == 'bv' and pl[0][1].size() == 32:
            rest = pl[1:]
            klen = BV(0)
            key_ok = z3.BoolVal(True)
            if rest and rest[0][0] == 'buf' and v in ('GetKey', 'GetKeyQuietly'):
                kb = rest[0][1]
                klen = kb.len
                reqkey = x.req.fields[0].fields[1]     # GetRequest { header, key }
                key_ok = same(kb, reqkey)
            hit_layout = z3.And(r.extlen == 4, z3.ZeroExt(48, r.keylen) == klen, key_ok,
                                z3.If(is_getk, klen == H.key64, klen == 0))
        ck.obligation('get-hit: 4 flag bytes, key echoed only by getk', pc, z3.Implies(z3.And(is_get, okst), hit_layout), {}, on_w, small)
        cnt_layout = z3.BoolVal(len(pl) == 1 and pl[0][0] == 'bv' and pl[0][1].size() == 64)
        ck.obligation('counter: 8 big-endian bytes, no extras, no key', pc,
                      z3.Implies(z3.And(is_cnt, okst), z3.And(cnt_layout, r.extlen == 0, r.keylen == 0, r.body == 8)), {}, on_w, small)
        err_layout = z3.BoolVal(len(pl) == 1 and pl[0][0] == 'lit' and len(pl[0][1]) > 0)
        ck.obligation('error: message text only', pc,
                      z3.Implies(r.status != 0, z3.And(err_layout, r.extlen == 0, r.keylen == 0)), {}, on_w, small)
        # the Encoder twin
        if x.twin is not None:
            ck.obligation('Encoder::encode writes the same bytes as encode_message', pc, same(HC.Rope(HC.parts_of(x.data)), x.twin), {}, None, small)
        # translator validation on a few paths
        if nval < (25 if tier == 'quick' else 10 ** 6):
            m = ck.witness(list(pc) + [z3.Or(H.keylen == 4, H.keylen == 0)], small)
            if m is not None and m != 'unknown' and mval(m, total) <= (1 << 16):
                nval += 1
                sc, idx = scen_frame(m, st)
                out = ck.replay([sc])[0]
                c = out['steps'][idx]
                pred_status = mval(m, r.status)
                got = parse_response(bytes.fromhex(c['response'])) if c.get('response') else None
                if got is not None and got['status'] == pred_status and got['body'] == mval(m, r.body) and got['cas'] == mval(m, r.cas):
                    ck.replays_ok += 1
                else:
                    ck.replays_bad += 1
                    ck.inconclusive.append(f'translator validation: {v}: predicted status {pred_status} body {mval(m, r.body)} cas {mval(m, r.cas)}; native {got} ({c})')
    for need in ('response:Get', 'response:Set', 'response:Increment', 'response:ItemTooLarge', 'response:Version', 'response:NotSupported',
                 'silent:SetQuietly', 'silent:GetQuietly'):
        ck.covers.setdefault(need, False)
    connection_level(ck, tier)
    return ck.finish()


if __name__ == '__main__':
    main(run)

"""C11 - every response is a well-formed, correctly correlated frame.

One fully symbolic request frame (every opcode, every field) from an arbitrary well-formed store state through the real
decode -> handle_request -> encode_message.  The encoded rope is parsed back by an independent reader and checked against
the protocol's layout rules; the tokio-util `Encoder` twin (write_msg) must produce the same bytes.
"""
import z3, struct
from .common import *
from .wire import *
from .world import St
from . import handler_common as HC
from .handler_common import limit, total, RespView
from mirse.models.bytesm import blen, part_len, Buf

STATUS_TABLE = [0x00, 0x01, 0x02, 0x03, 0x04, 0x05, 0x06, 0x20, 0x21, 0x81, 0x82, 0x83, 0x84, 0x85, 0x86]
H = Hdr(0)


def harness(st):
    def h(E):
        HC.base_assume(E, st)
        return HC.run_request(E, st, twin_encode=True)
    return h


def scen_frame(m, st, nframe=None):
    """handler scenario for the single-frame witness: pre-state of key0 + the frame"""
    from . import store_replay as SR
    C = SR.Concretizer(m)
    steps = SR.setup_steps(m, st, C)
    # the request's key must be the one the pre-state was stored under: rewrite the key bytes of the frame
    n = mval(m, total)
    data = bytearray(wire_bytes(m, min(n, 1 << 16)))
    kl = mval(m, H.keylen)
    el = mval(m, H.extlen)
    op = mval(m, H.opcode)
    # where the real parsers take the key from (they do not use extras_length to locate it)
    koff = 24 + (8 if op in SET_FAMILY else 20 if op in INCDEC_FAMILY else 0)
    key = SR.key_bytes(0)
    if kl == len(key) and koff + kl <= len(data):
        data[koff:koff + kl] = key
    steps.append({'clock': mval(m, st.now), 'frame': bytes(data).hex()})
    return {'kind': 'handler', 'policy': 'none', 'item_limit': mval(m, limit), 'steps': steps}, len(steps) - 1


def run(tier, seed, replay_path=None):
    ck = Check('C11', tier, seed)
    if replay_path:
        return generic_replay(ck, replay_path)
    E = ck.engine()
    st = St(2)
    ck.bounds = {'request': '1 fully symbolic frame: all 256 opcodes, all header fields, body bytes', 'store': 'arbitrary well-formed state of the addressed key + one other key',
                 'item_limit': '1024 .. 2^31', 'lengths': 'unbounded'}
    ck.assumptions = ['the buffer holds exactly the request frame', 'library models of DESIGN 3.3', 'key identity: the request key names map slot 0']
    res = ck.explore(harness(st))
    names = {v: k for k, v in E.enums['BinaryRequest']}
    from mirse.models.bytesm import vlen
    small = [z3.ULE(total, 128), z3.ULE(st.cas_id, 1000), z3.ULE(st.now, 100000), H.keylen == 4] + \
            [z3.ULE(vlen(v), 1 << 17) for v in st.val] + [z3.ULE(vlen(v), 64) for v in st.val]
    nval = 0
    for p in res:
        if p.status != 'ok':
            continue
        x = p.out
        if x.tag != 'some':
            continue
        v = names[x.req_variant]
        if x.data is None:
            ck.cover('silent:' + v, True)
            continue
        ck.cover('response:' + v, True)
        r = RespView(E, x.data)
        pc = p.pc

        def on_w(m, where, x=x):
            sc, idx = scen_frame(m, st)
            out = ck.replay([sc])[0]
            c = out['steps'][idx]
            if c.get('response') is None:
                return None, f'native produced no response: {c}', sc
            rb = bytes.fromhex(c['response'])
            pr = parse_response(rb)
            desc = f"request opcode 0x{mval(m, H.opcode):02x} opaque {mval(m, H.opaque)} -> response {rb[:24].hex()} + {len(rb) - 24} payload bytes"
            bad = (pr['magic'] != 0x81 or pr['opcode'] != mval(m, H.opcode) or pr['opaque'] != mval(m, H.opaque) or pr['datatype'] != 0
                   or pr['status'] not in STATUS_TABLE or pr['total'] != 24 + pr['body'] or pr['extlen'] + pr['keylen'] > pr['body'])
            return (True if bad else None), desc, sc
        if not r.ok:
            ck.obligation('header-layout', pc, z3.BoolVal(False), {}, on_w, small)
            continue
        ck.sample({'request': v, 'status': str(z3.simplify(r.status)), 'payload_parts': [q[0] for q in r.payload]})
        ck.obligation('magic-opcode-opaque-datatype', pc,
                      z3.And(r.magic == 0x81, r.opcode == H.opcode, r.opaque == H.opaque, r.datatype == 0), {}, on_w, small)
        ck.obligation('status-in-table', pc, z3.Or([r.status == s for s in STATUS_TABLE]), {}, on_w, small)
        ck.obligation('body-length-is-what-follows', pc, z3.ZeroExt(32, r.body) == r.payload_len, {}, on_w, small)
        ck.obligation('extras-and-key-fit-in-body', pc,
                      z3.ULE(z3.ZeroExt(56, r.extlen) + z3.ZeroExt(48, r.keylen), z3.ZeroExt(32, r.body)), {}, on_w, small)
        # layout per outcome class
        pl = r.payload
        is_get = H.op_in(*GET_FAMILY)
        is_getk = H.op_in(0x0c, 0x0d)
        is_cnt = H.op_in(*INCDEC_FAMILY)
        okst = r.status == 0
        hit_layout = z3.BoolVal(False)
        if len(pl) >= 1 and pl[0][0] == 'bv' and pl[0][1].size() == 32:
            rest = pl[1:]
            klen = BV(0)
            key_ok = z3.BoolVal(True)
            if rest and rest[0][0] == 'buf' and v in ('GetKey', 'GetKeyQuietly'):
                kb = rest[0][1]
                klen = kb.len
                reqkey = x.req.fields[0].fields[1]     # GetRequest { header, key }
                key_ok = same(kb, reqkey)
            hit_layout = z3.And(r.extlen == 4, z3.ZeroExt(48, r.keylen) == klen, key_ok,
                                z3.If(is_getk, klen == H.key64, klen == 0))
        ck.obligation('get-hit: 4 flag bytes, key echoed only by getk', pc, z3.Implies(z3.And(is_get, okst), hit_layout), {}, on_w, small)
        cnt_layout = z3.BoolVal(len(pl) == 1 and pl[0][0] == 'bv' and pl[0][1].size() == 64)
        ck.obligation('counter: 8 big-endian bytes, no extras, no key', pc,
                      z3.Implies(z3.And(is_cnt, okst), z3.And(cnt_layout, r.extlen == 0, r.keylen == 0, r.body == 8)), {}, on_w, small)
        err_layout = z3.BoolVal(len(pl) == 1 and pl[0][0] == 'lit' and len(pl[0][1]) > 0)
        ck.obligation('error: message text only', pc,
                      z3.Implies(r.status != 0, z3.And(err_layout, r.extlen == 0, r.keylen == 0)), {}, on_w, small)
        # the Encoder twin
        if x.twin is not None:
            ck.obligation('Encoder::encode writes the same bytes as encode_message', pc, same(HC.Rope(HC.parts_of(x.data)), x.twin), {}, None, small)
        # translator validation on a few paths
        if nval < (25 if tier == 'quick' else 10 ** 6):
            m = ck.witness(list(pc) + [z3.Or(H.keylen == 4, H.keylen == 0)], small)
            if m is not None and m != 'unknown' and mval(m, total) <= (1 << 16):
                nval += 1
                sc, idx = scen_frame(m, st)
                out = ck.replay([sc])[0]
                c = out['steps'][idx]
                pred_status = mval(m, r.status)
                got = parse_response(bytes.fromhex(c['response'])) if c.get('response') else None
                if got is not None and got['status'] == pred_status and got['body'] == mval(m, r.body) and got['cas'] == mval(m, r.cas):
                    ck.replays_ok += 1
                else:
                    ck.replays_bad += 1
                    ck.inconclusive.append(f'translator validation: {v}: predicted status {pred_status} body {mval(m, r.body)} cas {mval(m, r.cas)}; native {got} ({c})')
    for need in ('response:Get', 'response:Set', 'response:Increment', 'response:ItemTooLarge', 'response:Version', 'response:NotSupported',
                 'silent:SetQuietly', 'silent:GetQuietly'):
        ck.covers.setdefault(need, False)
    return ck.finish()


if __name__ == '__main__':
    main(run)

"""Store-level path summaries: every `MemcStore` entry point executed from its MIR on a parametric pre-state.

A summary is (guard, post-state, result, events) with every component a z3 term over the pre-state vector `St`,
the input vector `In` and path-local fresh variables.  The history checks compose k copies of the disjunction of all
summaries inside the solver (bounded model checking); the single-step checks use them directly.
"""
import z3
from mirse.values import *
from mirse.models.bytesm import Val, VTerm, vlen, vempty
from mirse.models.dashmap import KeyTok
from .world import St, World, mk, fld, record

CMDS = ['set', 'get', 'add', 'replace', 'append', 'prepend', 'increment', 'decrement', 'delete', 'flush']
CMD_ID = {c: i for i, c in enumerate(CMDS)}
# result kinds: 0 = Ok ; CacheError discriminants otherwise ; 0xff = panic
R_OK, R_NOTFOUND, R_EXISTS, R_NONNUM, R_PANIC = 0, 1, 2, 6, 0xff


class In:
    def __init__(self, sfx=''):
        self.val = z3.Const('in_val' + sfx, Val)
        self.cas = z3.BitVec('in_cas' + sfx, 64)
        self.flags = z3.BitVec('in_flags' + sfx, 32)
        self.ttl = z3.BitVec('in_ttl' + sfx, 32)
        self.delta = z3.BitVec('in_delta' + sfx, 64)
        self.init = z3.BitVec('in_init' + sfx, 64)

    def vars(self):
        return [self.val, self.cas, self.flags, self.ttl, self.delta, self.init]

    def wellformed(self):
        return [z3.ULT(vlen(self.val), 1 << 31)]


class Summary:
    def __init__(self):
        self.cmd = None
        self.key = None
        self.pc = []
        self.status = 'ok'
        self.rkind = None       # python int
        self.rcas = None        # BV64 or None
        self.rval = None        # Val term (get) or None
        self.rflags = None
        self.rnum = None        # BV64 (incr/decr) or None
        self.post = None        # dict: present[], val[], flags[], cas[], ts[], ttl[], cas_id, usage
        self.events = []
        self.info = None
        self.trace = None


def val_term(v):
    if isinstance(v, VTerm):
        return v.t
    raise Unsupported(f'stored value is not a Val term: {v!r}')


def post_state(w, K):
    E = w.E
    d = {'present': [], 'val': [], 'flags': [], 'cas': [], 'ts': [], 'ttl': []}
    for i in range(K):
        p, v, fl, cas, ts, ttl = w.entry(i)
        d['present'].append(p)
        # a slot that has never held a record keeps its (irrelevant) symbolic pre-state fields
        d['val'].append(val_term(v) if v is not None else w.st.val[i])
        d['flags'].append(fl if fl is not None else w.st.flags[i])
        d['cas'].append(cas if cas is not None else w.st.cas[i])
        d['ts'].append(ts if ts is not None else w.st.ts[i])
        d['ttl'].append(ttl if ttl is not None else w.st.ttl[i])
    d['cas_id'] = w.cas_id()
    u = w.usage()
    d['usage'] = u if u is not None else w.st.usage
    d['extra'] = w.extras()
    return d


def make_harness(E, cmd, j, K, st, inp, policy=None, memory_limit=None, extra_assume=None, clock_mode='step'):
    f = E.fn('MemcStore', cmd)

    def h(E):
        for c in st.wellformed() + inp.wellformed():
            E.assume(c)
        if extra_assume:
            for c in extra_assume:
                E.assume(c)
        w = World(E, st, policy, memory_limit, clock_mode)
        if not getattr(st, 'free_extras', False):
            # fields this harness does not know by name start at the value the crate's constructor gives them (single steps);
            # the history checks thread them through their steps instead
            for key, var in st.extra.items():
                E.assume(var == st.extra_init[key])
        E.panic_out = lambda: (w, None, post_state(w, K))
        key = KeyTok(j)
        kc = E.alloc(key)
        zero64 = BV(0)
        if cmd in ('set', 'add', 'replace', 'append', 'prepend'):
            rec = record(E, inp.val, inp.cas, inp.flags, inp.ttl, zero64)
            args = [w.memc, key, rec]
        elif cmd == 'get':
            args = [w.memc, Ref(kc)]
        elif cmd in ('increment', 'decrement'):
            meta = mk(E, 'CacheMetaData', timestamp=zero64, cas=inp.cas, flags=inp.flags, time_to_live=inp.ttl)
            args = [w.memc, meta, key, mk(E, 'DeltaParam', delta=inp.delta, value=inp.init)]
        elif cmd == 'delete':
            meta = mk(E, 'CacheMetaData', timestamp=zero64, cas=inp.cas, flags=BV(0, 32), time_to_live=BV(0, 32))
            args = [w.memc, key, meta]
        elif cmd == 'flush':
            meta = mk(E, 'CacheMetaData', timestamp=zero64, cas=zero64, flags=BV(0, 32), time_to_live=inp.ttl)
            args = [w.memc, meta]
        r = E.call(f, args)
        return w, r, post_state(w, K)
    return h


def summarize(E, cmd, j, K, st, inp, policy=None, memory_limit=None, extra_assume=None, ck=None):
    h = make_harness(E, cmd, j, K, st, inp, policy, memory_limit, extra_assume)
    res = ck.explore(h) if ck is not None else E.explore(h)
    out = []
    for p in res:
        s = Summary()
        s.cmd = cmd
        s.key = j
        s.pc = p.pc
        s.status = p.status
        s.events = p.events
        s.info = p.info
        s.trace = p.trace
        if p.status == 'ok':
            w, r, s.post = p.out
            if cmd == 'flush':
                s.rkind = R_OK
            elif r.var == 0:
                s.rkind = R_OK
                v = r.fields[0]
                if cmd == 'get' or cmd == 'delete':
                    hh = fld(E, v, 'Record', 'header')
                    s.rval = val_term(fld(E, v, 'Record', 'value'))
                    s.rflags = fld(E, hh, 'CacheMetaData', 'flags')
                    s.rcas = fld(E, hh, 'CacheMetaData', 'cas')
                elif cmd in ('increment', 'decrement'):
                    s.rcas = fld(E, v, 'DeltaResult', 'cas')
                    s.rnum = fld(E, v, 'DeltaResult', 'value')
                else:
                    s.rcas = fld(E, v, 'SetStatus', 'cas')
            else:
                s.rkind = r.fields[0].var
        elif p.status == 'panic':
            s.rkind = R_PANIC
            s.post = p.out[2]
        else:
            s.rkind = None
        out.append(s)
    return out

"""C20 - behaviour is the same under every runtime configuration.

Decidable with this technique, and claimed:
 (a) policy equivalence: every store-level command, from the same arbitrary well-formed state, gives the same result and the
     same map contents on the plain store and on the random-eviction store while its limit is not reached (relational, one step;
     sequences by induction on state equality);
 (b) plumbing: symbolic execution of create_memcrs_server -> create_*_server -> MemcacheTcpServer::new -> Client::new ->
     MemcacheBinaryConnection::new -> MemcacheBinaryCodec::new and MemcacheStoreBuilder::from_config with symbolic MemcrsArgs:
     the item size limit and connection limit that reach the codec / the semaphore are the configured ones, one store object
     reaches every listener, the selected policy object is the one built, in both runtime types (see runtime_checks.py).
Not decidable here (no code of this crate to encode): equivalence of tokio's two schedulers and of worker counts, SO_REUSEPORT
distribution, ports, and that the 1 Hz tick follows real time.
"""
import z3
from .common import *
from .store_common import *
from .world import St, World
from mirse.models.dashmap import KeyTok
from . import policy_checks as PC


def run_equiv(ck, tier, K=2):
    E = ck.E
    st = St(K)
    inp = In()
    L = PC.L
    for cmd in CMDS:
        for j in range(1 if tier == 'quick' else K):
            if cmd == 'flush' and j:
                continue
            ha = make_harness(E, cmd, j, K, st, inp)
            hb = make_harness(E, cmd, j, K, st, inp, 'random', L)

            def h(E, ha=ha, hb=hb):
                from .store_checks import pre_assumptions
                for c in pre_assumptions(st, K) + PC.handler_constraints(cmd, inp):
                    E.assume(c)
                E.assume(z3.ULT(L, 1 << 62), z3.ULE(st.usage, L), z3.UGE(L - st.usage, BV(1 << 33)))
                wa, ra, pa = ha(E)
                wb, rb, pb = hb(E)
                return ra, pa, rb, pb
            res = ck.explore(h)
            for p in res:
                if p.status != 'ok':
                    continue
                ra, pa, rb, pb = p.out
                eq = [same(ra, rb)]
                for i in range(K):
                    eq.append(pa['present'][i] == pb['present'][i])
                    for f in ('val', 'flags', 'cas', 'ts', 'ttl'):
                        eq.append(z3.Implies(pa['present'][i], pa[f][i] == pb[f][i]))
                eq.append(pa['cas_id'] == pb['cas_id'])
                def on_w(m, where, cmd=cmd, j=j):
                    from . import store_replay as SR
                    try:
                        sa, nsetup, C = SR.scenario(m, st, inp, cmd, j)
                        sb, _, _ = SR.scenario(m, st, inp, cmd, j, policy='random', memory_limit=mval(m, L))
                    except ValueError as ex:
                        return None, f'cannot concretise: {ex}', None
                    oa, ob = ck.replay([sa, sb])
                    ra = [x.get('response', x.get('panic')) for x in oa['steps'][nsetup:]]
                    rb = [x.get('response', x.get('panic')) for x in ob['steps'][nsetup:]]
                    desc = f"{cmd} key{j} (cas {mval(m, inp.cas)}) on [{'; '.join('key%d cas=%d' % (i, mval(m, st.cas[i])) if mval(m, st.present[i]) else 'key%d absent' % i for i in range(K))}], " \
                           f"memory limit {mval(m, L)}: responses (command, then a get of each key) without eviction layer {ra} / with it {rb}"
                    return (True if ra != rb else None), desc, [sa, sb]
                small = [z3.ULE(st.cas_id, 100), z3.ULE(st.now, 100000)] + [z3.ULE(PC.vlen(v), 16) for v in st.val + [inp.val]]
                ck.obligation(f'{cmd}: same result and same contents with and without the eviction layer', p.pc, z3.And(eq), {}, on_w, small)
                ck.cover('equiv:' + cmd, True)
            ck.sample({'cmd': cmd, 'paths': len(res)})


def run(tier, seed, replay_path=None):
    ck = Check('C20', tier, seed)
    if replay_path:
        return generic_replay(ck, replay_path)
    ck.engine()
    ck.bounds.update({'policy equivalence': 'one command from an arbitrary well-formed state, 2 keys, limit - usage >= 2^33'})
    ck.assumptions += ['library models of DESIGN 3.3', 'tokio runtime constructors, thread spawning and sockets are models (runtime_checks.py)']
    run_equiv(ck, tier)
    from . import runtime_checks
    runtime_checks.run_plumbing(ck, tier)
    return ck.finish()


if __name__ == '__main__':
    main(run)

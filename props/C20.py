"""C20 - behaviour is the same under every runtime configuration.

Decidable with this technique, and claimed:
 (a) policy equivalence: every store-level command, from the same arbitrary well-formed state, gives the same result and the
     same map contents on the plain store and on the random-eviction store while its limit is not reached (relational, one step;
     sequences by induction on state equality);
 (b) plumbing: symbolic execution of create_memcrs_server -> create_*_server -> MemcacheTcpServer::new -> Client::new ->
     MemcacheBinaryConnection::new -> MemcacheBinaryCodec::new and MemcacheStoreBuilder::from_config with symbolic MemcrsArgs:
     the item size limit and connection limit that reach the codec / the semaphore are the configured ones, one store object
     reaches every listener, the selected policy object is the one built, in both runtime types (see runtime_checks.py).
Not decidable here (no code of this crate to encode): equivalence of tokio's two schedulers and of worker counts, SO_REUSEPORT
distribution, ports.  The clock task (SystemTimer::run) is executed over a model of tokio's interval (runtime_checks.run_timer).
"""
import z3
from .common import *
from .store_common import *
from .world import St, World
from mirse.models.dashmap import KeyTok
from . import policy_checks as PC


def run_equiv(ck, tier, K=2):
    E = ck.E
    st = St(K)
    inp = In()
    L = PC.L
    for cmd in CMDS:
        for j in range(1 if tier == 'quick' else K):
            if cmd == 'flush' and j:
                continue
            ha = make_harness(E, cmd, j, K, st, inp)
            hb = make_harness(E, cmd, j, K, st, inp, 'random', L)

            def h(E, ha=ha, hb=hb):
                from .store_checks import pre_assumptions
                for c in pre_assumptions(st, K) + PC.handler_constraints(cmd, inp):
                    E.assume(c)
                E.assume(z3.ULT(L, 1 << 62), z3.ULE(st.usage, L), z3.UGE(L - st.usage, BV(1 << 33)))
                wa, ra, pa = ha(E)
                wb, rb, pb = hb(E)
                return ra, pa, rb, pb
            res = ck.explore(h)
            for p in res:
                if p.status != 'ok':
                    continue
                ra, pa, rb, pb = p.out
                eq = [same(ra, rb)]
                for i in range(K):
                    eq.append(pa['present'][i] == pb['present'][i])
                    for f in ('val', 'flags', 'cas', 'ts', 'ttl'):
                        eq.append(z3.Implies(pa['present'][i], pa[f][i] == pb[f][i]))
                eq.append(pa['cas_id'] == pb['cas_id'])
                def on_w(m, where, cmd=cmd, j=j):
                    from . import store_replay as SR
                    try:
                        sa, nsetup, C = SR.scenario(m, st, inp, cmd, j)
                        sb, _, _ = SR.scenario(m, st, inp, cmd, j, policy='random', memory_limit=mval(m, L))
                    except ValueError as ex:
                        return None, f'cannot concretise: {ex}', None
                    oa, ob = ck.replay([sa, sb])
                    ra = [x.get('response', x.get('panic')) for x in oa['steps'][nsetup:]]
                    rb = [x.get('response', x.get('panic')) for x in ob['steps'][nsetup:]]
                    desc = f"{cmd} key{j} (cas {mval(m, inp.cas)}) on [{'; '.join('key%d cas=%d' % (i, mval(m, st.cas[i])) if mval(m, st.present[i]) else 'key%d absent' % i for i in range(K))}], " \
                           f"memory limit {mval(m, L)}: responses (command, then a get of each key) without eviction layer {ra} / with it {rb}"
                    return (True if ra != rb else None), desc, [sa, sb]
                small = [z3.ULE(st.cas_id, 100), z3.ULE(st.now, 100000)] + [z3.ULE(PC.vlen(v), 16) for v in st.val + [inp.val]]
                ck.obligation(f'{cmd}: same result and same contents with and without the eviction layer', p.pc, z3.And(eq), {}, on_w, small)
                ck.cover('equiv:' + cmd, True)
            ck.sample({'cmd': cmd, 'paths': len(res)})


def run_history_equiv(ck, tier):
    """the same k-command history on the plain store and behind the eviction layer, with the limit out of reach even if every
    byte ever sent were kept and counted twice: identical responses at every step (in-solver, both systems composed from the
    path summaries of the real code; the witness history is replayed natively under both policies)"""
    from . import bmc
    from mirse.models.bytesm import vlen, visnum
    from .store_common import CMD_ID
    L = PC.L
    K = 1
    k = 4 if tier == 'quick' else 5
    U = (k + 1) * ((k + 1) * 4096 + 4096)   # more than any correct or known-drifting accounting can reach in k commands of <= 4096-byte values
    cmds = ['set', 'get', 'delete', 'flush'] if tier == 'quick' else ['set', 'get', 'delete', 'flush', 'append', 'add']

    def extra(cmd, inp):
        return PC.handler_constraints(cmd, inp) + [z3.Not(visnum(inp.val)), z3.ULE(vlen(inp.val), 4096)]
    A = bmc.System(ck, K, cmds, extra_assume=extra)
    ck.E.loop_bound = 6
    B = bmc.System(ck, K, cmds, policy='random', memory_limit=L, extra_assume=lambda c, i: extra(c, i) + [z3.ULT(L, 1 << 40)])
    trA, csA = A.unroll(k, tag='')
    trB, csB = B.unroll(k, tag='~p')
    cs = csA + csB
    for t in range(k + 1):
        cs.append(trA.S[t].now == trB.S[t].now)
    cs.append(z3.UGE(L, BV(U + (1 << 33))))
    differ = []
    for t in range(k):
        d = trA.rkind[t] != trB.rkind[t]
        d = z3.Or(d, z3.And(trA.cmd[t] == CMD_ID['get'], trA.rkind[t] == 0, z3.Or(trA.rval[t] != trB.rval[t], trA.rcas[t] != trB.rcas[t])))
        differ.append(d)

    def on_w(m, where):
        ra, da, sa, oa = A.replay(m, trA)
        rb, db, sb, ob = B.replay(m, trB)
        if oa is None or ob is None:
            return None, 'cannot replay the history', [sa, sb]
        xa = [x.get('response', x.get('panic')) for x in oa['steps'][:k]]
        xb = [x.get('response', x.get('panic')) for x in ob['steps'][:k]]
        desc = f"limit {mval(m, L)} (never reached): {da} | responses with --eviction-policy none {xa} / random {xb}"
        return (True if xa != xb else None), desc, [sa, sb]
    small = [z3.ULE(L, 1 << 35), z3.ULE(trA.S[0].now, 100)] + [z3.ULE(vlen(trA.I[t].val), 16) for t in range(k)]
    ck.bounds['history equivalence'] = f'{k} commands from {cmds} on {K} keys, same inputs and clock on both systems, values <= 4096 bytes, limit >= {U} + 2^33'
    ck.cover('history equivalence: both systems run', cs)
    ck.obligation(f'bmc-k{k}: same responses with and without the eviction layer while the limit is out of reach', cs, z3.Not(z3.Or(differ)), {}, on_w, small)


def run_headroom(ck, tier, cfg=None):
    """links the one-step equivalence (which needs limit - usage >= 2^33) to whole histories: along every k-command history
    on 2 keys behind the eviction layer the accounted usage stays below U_k (no wrap, no runaway), so with limit >= U_k + 2^33
    the one-step premise holds at every step and the eviction layer never acts"""
    from . import bmc
    from mirse.models.bytesm import vlen, visnum
    L = PC.L
    K = 2
    if cfg is None:
        # depth on the narrow menu, width at a smaller depth (depth 6 on the wide menu is left undecided by both solvers)
        for c in ([(5, ['set', 'get', 'delete', 'flush'])] if tier == 'quick' else
                  [(6, ['set', 'get', 'delete', 'flush']), (4, ['set', 'get', 'delete', 'flush', 'append', 'add'])]):
            run_headroom(ck, tier, c)
        return
    k, cmds = cfg
    U = (k + 1) * ((k + 1) * 4096 + 4096)
    ck.E.loop_bound = 6
    B = bmc.System(ck, K, cmds, policy='random', memory_limit=L,
                   extra_assume=lambda c, i: PC.handler_constraints(c, i) + [z3.Not(visnum(i.val)), z3.ULE(vlen(i.val), 4096), z3.ULT(L, 1 << 40), z3.UGE(L, BV(U + (1 << 33)))])
    tr, cs = B.unroll(k, tag=f'~h{k}')
    bad = z3.Or([z3.UGT(tr.S[t].usage, BV(U)) for t in range(1, k + 1)] + [tr.evict[t] for t in range(0)])

    def on_w(m, where):
        r, d, sc, out = B.replay(m, tr)
        if out is None:
            return None, d, sc
        us = [c.get('usage') for c in out['steps'][:k]]
        desc = f"limit {mval(m, L)}: {d} | accounted usage after each command {us} (bound {U})"
        return (True if any(u is not None and u > U for u in us) else None), desc, sc
    small = [z3.ULE(L, 1 << 35), z3.ULE(tr.S[0].now, 100)] + [z3.ULE(vlen(tr.I[t].val), 16) for t in range(k)]
    ck.bounds[f'headroom-k{k}'] = f'{k} commands from {cmds} on {K} keys, values <= 4096 bytes: accounted usage <= {U}'
    ck.cover(f'headroom: histories exist (k={k})', cs)
    # one query per step (the disjunction over all steps is left undecided at k=6)
    for t in range(1, k + 1):
        ck.obligation(f'bmc-k{k}: the accounted usage stays in reach of the bytes sent (the limit stays out of reach), after step {t}', cs,
                      z3.ULE(tr.S[t].usage, BV(U)), {}, on_w, small)


def run(tier, seed, replay_path=None):
    ck = Check('C20', tier, seed)
    if replay_path:
        return generic_replay(ck, replay_path)
    ck.engine()
    ck.bounds.update({'policy equivalence': 'one command from an arbitrary well-formed state, 2 keys, limit - usage >= 2^33'})
    ck.assumptions += ['library models of DESIGN 3.3', 'tokio runtime constructors, thread spawning and sockets are models (runtime_checks.py)']
    run_equiv(ck, tier)
    run_history_equiv(ck, tier)
    run_headroom(ck, tier)
    from . import runtime_checks
    runtime_checks.run_plumbing(ck, tier)
    runtime_checks.run_timer(ck, tier)
    return ck.finish()


if __name__ == '__main__':
    main(run)

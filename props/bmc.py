"""Bounded model checking of command histories inside the solver: k copies of the disjunction of all path summaries
of the real store-level entry points (props/store_common.py), from the empty store.  The solver - not Python - enumerates
command sequences, keys, arguments and clock advances; a model is a concrete history, replayed natively frame by frame."""
import z3, struct
from mirse.values import BV
from mirse.models.bytesm import Val, vlen, vempty
from .store_common import *
from .world import St
from . import store_replay as SR
from .common import mval
from .wire import frame, parse_response


def free_consts(exprs):
    seen = set()
    out = {}
    stack = list(exprs)
    while stack:
        e = stack.pop()
        if not z3.is_expr(e):
            continue
        i = e.get_id()
        if i in seen:
            continue
        seen.add(i)
        if z3.is_const(e) and e.decl().kind() == z3.Z3_OP_UNINTERPRETED:
            out[e.decl().name()] = e
        else:
            stack.extend(e.children())
    return out


class Trace:
    """variables of a k-step history; `tag` distinguishes a second system run on the same inputs (relational checks)"""

    def __init__(self, K, k, with_policy=False, tag=''):
        self.K = K
        self.k = k
        self.tag = tag
        self.S = [St(K, f'@{t}{tag}') for t in range(k + 1)]
        self.I = [In(f'@{t}') for t in range(k)]
        self.sel = [z3.Int(f'sel@{t}{tag}') for t in range(k)]
        self.cmd = [z3.BitVec(f'cmd@{t}', 8) for t in range(k)]
        self.key = [z3.BitVec(f'key@{t}', 8) for t in range(k)]
        self.rkind = [z3.BitVec(f'rkind@{t}{tag}', 8) for t in range(k)]
        self.rcas = [z3.BitVec(f'rcas@{t}{tag}', 64) for t in range(k)]
        self.rnum = [z3.BitVec(f'rnum@{t}{tag}', 64) for t in range(k)]
        self.rval = [z3.Const(f'rval@{t}{tag}', Val) for t in range(k)]
        self.evict = [z3.Bool(f'evict@{t}{tag}') for t in range(k)]


class System:
    def __init__(self, ck, K, cmds, policy=None, memory_limit=None, include_panics=False, extra_assume=None):
        self.ck = ck
        self.K = K
        self.st = St(K)
        self.st.free_extras = True
        self.inp = In()
        self.policy = policy
        self.memory_limit = memory_limit
        self.summaries = []
        self._base_names = None
        for cmd in cmds:
            for j in range(K):
                if cmd == 'flush' and j > 0:
                    continue
                ex = list(extra_assume(cmd, self.inp) if extra_assume else [])
                for s in summarize(ck.E, cmd, j, K, self.st, self.inp, policy, memory_limit, extra_assume=ex, ck=ck):
                    if s.status == 'panic' and not include_panics:
                        continue
                    if s.status not in ('ok', 'panic'):
                        continue
                    exprs = list(s.pc) + [x for lst in ('present', 'val', 'flags', 'cas', 'ts', 'ttl') for x in s.post[lst]] + \
                        [s.post['cas_id'], s.post['usage']] + [x for x in (s.rcas, s.rnum, s.rval) if x is not None] + \
                        [x for x in s.post.get('extra', {}).values() if z3.is_expr(x)]
                    base = {v.decl().name() for v in self.st.vars() + self.inp.vars()}
                    if memory_limit is not None and z3.is_const(memory_limit):
                        base.add(memory_limit.decl().name())
                    fc = free_consts(exprs)
                    s.locals = [v for n, v in fc.items() if n not in base and n not in ('vempty', 'wire')]
                    s.evicts = any(e[0] == 'map.remove' and 'evict' in str(e) for e in s.events)
                    self.summaries.append(s)

    def step(self, tr, t):
        """transition relation of step t as one formula"""
        S, S2, I = tr.S[t], tr.S[t + 1], tr.I[t]
        sub0 = list(zip(self.st.vars(), S.vars())) + list(zip(self.inp.vars(), I.vars()))
        alts = []
        for n, s in enumerate(self.summaries):
            sub = sub0 + [(v, z3.Const(f'{v.decl().name()}@{t}{tr.tag}', v.sort())) for v in s.locals]

            def R(e):
                return z3.substitute(e, *sub)
            cs = [tr.sel[t] == n, tr.cmd[t] == CMD_ID[s.cmd], tr.key[t] == s.key, tr.rkind[t] == s.rkind]
            cs += [R(c) for c in s.pc]
            P = s.post
            for i in range(self.K):
                cs += [S2.present[i] == R(P['present'][i]), S2.val[i] == R(P['val'][i]), S2.flags[i] == R(P['flags'][i]),
                       S2.cas[i] == R(P['cas'][i]), S2.ts[i] == R(P['ts'][i]), S2.ttl[i] == R(P['ttl'][i])]
            cs += [S2.cas_id == R(P['cas_id']), S2.usage == R(P['usage'])]
            for key in sorted(self.st.extra):
                cs.append(S2.extra[key] == R(P['extra'].get(key, self.st.extra[key])))
            if s.rcas is not None:
                cs.append(tr.rcas[t] == R(s.rcas))
            if s.rnum is not None:
                cs.append(tr.rnum[t] == R(s.rnum))
            if s.rval is not None:
                cs.append(tr.rval[t] == R(s.rval))
            alts.append(z3.And(cs))
        return z3.And(z3.Or(alts), z3.UGE(S2.now, S.now))

    def init(self, tr):
        S = tr.S[0]
        cs = [z3.Not(p) for p in S.present] + [S.cas_id == 1, S.usage == 0, z3.ULT(S.now, 1 << 30)]
        cs += [S.extra[key] == self.st.extra_init[key] for key in S.extra]
        cs += [vlen(vempty) == 0]
        return cs

    def unroll(self, k, tag=''):
        tr = Trace(self.K, k, tag=tag)
        for S in tr.S:
            S.clone_extras_from(self.st)
        cs = self.init(tr)
        for t in range(k):
            cs.append(self.step(tr, t))
            cs += tr.I[t].wellformed()
            cs.append(z3.ULT(tr.S[t + 1].now, 1 << 31))
        return tr, cs

    # ------------------------------------------------------------------ concretisation / native replay
    def history(self, m, tr):
        C = SR.Concretizer(m)
        steps = []
        desc = []
        for t in range(tr.k):
            n = m.eval(tr.sel[t], model_completion=True).as_long()
            s = self.summaries[n]
            fr = SR.cmd_frame(s.cmd, s.key, C, m, tr.I[t])
            steps.append({'clock': mval(m, tr.S[t].now), 'frame': fr.hex()})
            I = tr.I[t]
            args = {'set': 'flags ttl cas', 'add': 'flags ttl cas', 'replace': 'flags ttl cas', 'append': 'cas', 'prepend': 'cas',
                    'get': '', 'increment': 'delta init ttl cas', 'decrement': 'delta init ttl cas', 'delete': 'cas', 'flush': 'ttl'}[s.cmd]
            a = ' '.join(f'{x}={mval(m, getattr(I, x))}' for x in args.split())
            v = ''
            if s.cmd in ('set', 'add', 'replace', 'append', 'prepend'):
                v = f' value={C.val(I.val)!r}'
            desc.append(f"t={mval(m, tr.S[t].now)} {s.cmd} key{s.key} {a}{v} -> {'ok' if s.rkind == 0 else 'panic' if s.rkind == R_PANIC else 'err 0x%02x' % s.rkind}"
                        + (f" cas={mval(m, tr.rcas[t])}" if s.rcas is not None and s.rkind == 0 and s.cmd not in ('get', 'delete') else '')
                        + (f" value={mval(m, tr.rnum[t])}" if s.rnum is not None and s.rkind == 0 else ''))
        sc = {'kind': 'handler', 'policy': self.policy or 'none', 'item_limit': 1 << 20, 'steps': steps}
        if self.policy == 'random':
            sc['memory_limit'] = mval(m, self.memory_limit) if z3.is_expr(self.memory_limit) else self.memory_limit
        return sc, desc, C

    def replay(self, m, tr, extra_probe=None):
        """native run of the model's history; -> (matches engine prediction?, description, scenario, native outcome)"""
        try:
            sc, desc, C = self.history(m, tr)
        except ValueError as ex:
            return None, f'cannot concretise: {ex}', None, None
        if extra_probe:
            sc['steps'] += extra_probe
        out = self.ck.replay([sc])[0]
        diffs = []
        for t in range(tr.k):
            n = m.eval(tr.sel[t], model_completion=True).as_long()
            s = self.summaries[n]
            c = out['steps'][t]
            if 'panic' in c:
                kind = R_PANIC
                r = None
            elif c.get('response') is None:
                kind = None
                r = None
            else:
                r = parse_response(bytes.fromhex(c['response']))
                kind = r['status']
            if kind != s.rkind:
                diffs.append(f'step {t}: kind predicted {s.rkind} native {kind}')
                continue
            if s.rkind == 0 and r is not None:
                if s.rcas is not None and s.cmd != 'delete' and r['cas'] != mval(m, tr.rcas[t]):
                    diffs.append(f"step {t}: cas predicted {mval(m, tr.rcas[t])} native {r['cas']}")
                if s.rnum is not None and len(r['value']) == 8 and struct.unpack('>Q', r['value'])[0] != mval(m, tr.rnum[t]):
                    diffs.append(f"step {t}: counter predicted {mval(m, tr.rnum[t])} native {struct.unpack('>Q', r['value'])[0]}")
                if s.cmd == 'get':
                    try:
                        pv = C.val(z3.substitute(s.rval, *(list(zip(self.st.vars(), tr.S[t].vars())) + list(zip(self.inp.vars(), tr.I[t].vars())))))
                    except ValueError:
                        pv = None
                    ev = m.eval(tr.rval[t], model_completion=True)
            if self.policy == 'random' and 'usage' in c:
                pu = mval(m, tr.S[t + 1].usage)
                if c['usage'] != pu:
                    diffs.append(f"step {t}: accounted usage predicted {pu} native {c['usage']}")
        d = '; '.join(desc)
        if diffs:
            return None, d + ' | native differs from engine: ' + '; '.join(diffs), sc, out
        return True, d, sc, out

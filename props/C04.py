"""C04 - read-modify-write commands are atomic (add / replace / append / prepend / incr / decr).

Same machinery as C03 (all interleavings of the store's steps, symbolic data, linearizability decided by the solver per
schedule and path, native replay by forcing real threads through the schedule), on programs that race these commands with
each other and with set / delete.  Direct assertions for the named consequences: of two concurrent adds of an absent key
exactly one succeeds; two increments by d raise the counter by 2d and return distinct values; both concurrent appends are
in the final value; a replace/append/incr racing a delete never leaves the item behind a successful delete.
Each of the six commands is implemented as a lookup followed by a separate store; the window between the two is a known
finding per command (role-based region: another client's mutation of the key scheduled between this command's lookup and its
store).  Anything non-linearizable outside those windows is reported as a violation.
"""
import z3
from .common import *
from .conc_checks import explore_program
from .conc_common import OK_, NF_
from mirse.models.bytesm import vcat, vnum, visnum, vutf8

RMW = ['add', 'replace', 'append', 'prepend', 'increment', 'decrement']


def all_cas0(progs, st):
    return [inp.cas == 0 for p in progs for _, inp in p]


def adds_exactly_one(progs, obs, final, st):
    a, b = obs[0][0], obs[1][0]
    n_ok = int(a.kind == OK_) + int(b.kind == OK_)
    return z3.Implies(z3.Not(st.present[0]), z3.BoolVal(n_ok == 1))


def incrs_add_up(progs, obs, final, st):
    a, b = obs[0][0], obs[1][0]
    if a.kind != OK_ or b.kind != OK_:
        return z3.BoolVal(True)
    ia, ib = progs[0][0][1], progs[1][0][1]
    numeric = z3.And(st.live(0), visnum(st.val[0]), vutf8(st.val[0]))
    v = vnum(st.val[0])
    last = z3.If(z3.UGE(a.rnum, b.rnum), a.rnum, b.rnum)
    # without wrap-around: the larger returned value is v + da + db and the two returned values differ
    nowrap = z3.And(z3.ULT(v, 1 << 62), z3.ULT(ia.delta, 1 << 62), z3.ULT(ib.delta, 1 << 62), ia.delta != 0, ib.delta != 0)
    return z3.Implies(z3.And(numeric, nowrap), z3.And(last == v + ia.delta + ib.delta, a.rnum != b.rnum))


def not_resurrected(progs, obs, final, st):
    # client1 is the delete; if it succeeded and the other command found the item (succeeded too), the item must be gone only if
    # the delete is ordered last - the reference decides; here the direct form: a successful delete + the racing command reporting
    # "not found" must leave nothing behind
    a, d = obs[0][0], obs[1][0]
    if d.kind == OK_ and a.kind == NF_:
        return z3.Not(final[0])
    return z3.BoolVal(True)


PROGRAMS = {
    'add||add': dict(names=[['add'], ['add']], constraints=all_cas0, stale=True, extra=[('of two concurrent adds of an absent key exactly one succeeds', adds_exactly_one)]),
    'incr||incr': dict(names=[['increment'], ['increment']], constraints=all_cas0, extra=[('two increments add up and return distinct values', incrs_add_up)]),
    'decr||incr': dict(names=[['decrement'], ['increment']], constraints=all_cas0),
    'append||append': dict(names=[['append'], ['append']], constraints=all_cas0),
    'prepend||append': dict(names=[['prepend'], ['append']], constraints=all_cas0),
    'replace||delete': dict(names=[['replace'], ['delete']], constraints=all_cas0, extra=[('no resurrection behind a delete', not_resurrected)]),
    'append||delete': dict(names=[['append'], ['delete']], constraints=all_cas0, extra=[('no resurrection behind a delete', not_resurrected)]),
    'incr||delete': dict(names=[['increment'], ['delete']], constraints=all_cas0, extra=[('no resurrection behind a delete', not_resurrected)]),
    'add||set': dict(names=[['add'], ['set']], constraints=all_cas0, stale=True),
    'replace||set': dict(names=[['replace'], ['set']], constraints=all_cas0),
    'add||get': dict(names=[['add'], ['get']], constraints=all_cas0, stale=True),
    'incr||get': dict(names=[['increment'], ['get']], constraints=all_cas0),
    'append,get||set': dict(names=[['append', 'get'], ['set']], constraints=all_cas0),
    'cas-append||cas-append': dict(names=[['append'], ['append']]),
    'cas-append||set': dict(names=[['append'], ['set']], constraints=lambda progs, st: [progs[1][0][1].cas == 0]),
    'cas-append||cas-set': dict(names=[['append'], ['set']]),
    'cas-incr||cas-set': dict(names=[['increment'], ['set']]),
    'cas-incr||set': dict(names=[['increment'], ['set']], constraints=lambda progs, st: [progs[1][0][1].cas == 0]),
    'cas-replace||set': dict(names=[['replace'], ['set']], constraints=lambda progs, st: [progs[1][0][1].cas == 0]),
    'add||add||add': dict(names=[['add'], ['add'], ['add']], constraints=all_cas0),
    'incr||incr||get': dict(names=[['increment'], ['increment'], ['get']], constraints=all_cas0),
}
QUICK = ['add||add', 'incr||incr', 'decr||incr', 'append||append', 'prepend||append', 'replace||delete', 'append||delete', 'add||set', 'add||get',
         'cas-append||set', 'cas-incr||set', 'cas-replace||set', 'cas-append||cas-set']


def run_item(ck, it, tier):
    P = PROGRAMS[it]
    explore_program(ck, P['names'], constraints=P.get('constraints'), allow_stale=P.get('stale', False), extra_obligations=P.get('extra'),
                    budget_s=600 if tier == 'quick' else 3000)


def run(tier, seed, replay_path=None):
    ck = Check('C04', tier, seed)
    if replay_path:
        return generic_replay(ck, replay_path)
    ck.engine()
    items = QUICK if tier == 'quick' else list(PROGRAMS)
    ck.bounds.update({'programs': items, 'granularity': 'calls into DashMap / atomics', 'clock': 'constant during the concurrent episode',
                      'request CAS': '0 except in the cas-* programs'})
    ck.assumptions += ['DashMap per-call atomicity; sequential consistency', 'CAS values compared as tokens']
    ck.fork_map(items, lambda c, it: run_item(c, it, tier))
    # premise of the CAS-carrying programs (their pre-states assume it): along histories no two versions of an item share a token,
    # also when the shared counter is driven through another key
    from . import C02
    C02.bmc_uniqueness(ck, tier)
    C02.bmc_reissue_two_keys(ck, tier)
    return ck.finish()


if __name__ == '__main__':
    main(run)

"""C09 - request framing is independent of TCP segmentation (decoder level + socket level).

Decoder level (this file): the real decode() on one fully symbolic frame, one-shot vs split delivery.
  P1 exact consumption   Ok(Some(req)), not oversized  =>  consumed == 24 + body_length
  P2 no silent stall     Ok(None) with the whole frame buffered never happens (a frame is answered, awaited or refused)
  P3 segmentation        split delivery gives the same outcome (result term, bytes consumed) as one-shot delivery
  P4 parser reset        after a completed frame the parser is back in its initial state (=> frames of a pipeline are
                         decoded independently: the single-frame result extends to streams of any number of frames)
Socket level: see props/C13.py / sock_common.py (read_frame + skip_bytes), invoked from here in both tiers.
"""
import z3, json
from .common import *
from .wire import *
from . import decode_common as D
from .decode_common import H, total, c1, limit


def regions():
    op = H.opcode
    return {
        'get-delete-body-ne-key': z3.And(H.op_in(*GET_FAMILY, *DELETE_FAMILY), H.body64 != H.key64),
        'header-only-nonempty-body': z3.And(H.op_in(*HEADER_ONLY), H.body != 0),
        'flush-body-ne-extras': z3.And(H.op_in(*FLUSH_FAMILY), H.body64 != z3.If(H.extlen == 4, BV(4), BV(0))),
        'append-extras-ne-0': z3.And(H.op_in(*APPEND_FAMILY), H.extlen != 0),
        'set-extras-ne-8': z3.And(H.op_in(*SET_FAMILY), H.extlen != 8),
        'incdec-extras-ne-20': z3.And(H.op_in(*INCDEC_FAMILY), z3.Or(H.extlen != 20, H.body64 != 20 + H.key64)),
        'unimplemented-opcode': H.op_in(*UNIMPLEMENTED),
    }


def variant_names(E):
    return {v: k for k, v in E.enums['BinaryRequest']}


def describe(E, o):
    if o.tag != 'some':
        return o.tag
    return 'some:' + variant_names(E)[o.req.var]


def scen_pair(m, lim=None):
    n = mval(m, total)
    k = mval(m, c1)
    data = wire_bytes(m, n)
    lim = mval(m, limit)
    a = {'kind': 'decode', 'item_limit': lim, 'chunks': [data.hex()], 'loop': False}
    b = {'kind': 'decode', 'item_limit': lim, 'chunks': [data[:k].hex(), data[k:].hex()], 'loop': False}
    return a, b, data, k


def native_outcome(res):
    calls = res['calls']
    c = calls[0]
    if c['result'] == 'none' and len(calls) > 1:
        c = calls[1]
    return c


def run(tier, seed, replay_path=None):
    ck = Check('C09', tier, seed)
    if replay_path:
        return do_replay(ck, replay_path)
    E = ck.engine()
    decode = E.fn('<MemcacheBinaryCodec as Decoder>', 'decode')
    names = variant_names(E)
    R = regions()
    ck.bounds = {'frames': '1 fully symbolic frame + arbitrary following bytes (P4 extends to any number of frames)',
                 'stream_bytes': '<= 2^40', 'item_limit': '1024 .. 2^31', 'deliveries': '1 (one-shot) vs 2 (split at any c1)',
                 'lengths': 'unbounded (all header fields free 8/16/32-bit values)'}
    ck.assumptions = ['bytes::BytesMut/Buf modelled as a window on a byte array (DESIGN 3.3)',
                      'log/format calls are no-ops',
                      'decoder level: the caller delivers bytes in order and calls decode again after "need more"']
    res = ck.explore(D.harness_both(decode))
    small = [z3.ULE(total, 64), z3.ULE(total, 512), z3.ULE(total, 1 << 16), z3.ULE(limit, 4096)]
    replay_budget = 40 if tier == 'quick' else 10 ** 6
    validate = []
    for p in res:
        if p.status == 'panic':
            # panics are C10's subject; here they only matter if segmentation decides whether they happen (P3)
            continue
        if p.status != 'ok':
            continue
        a, b = p.out
        pc = p.pc
        da, db = describe(E, a), describe(E, b)
        ck.sample({'one_shot': da, 'split': db, 'path_len': len(p.trace)})
        oversized = z3.UGT(H.body, limit)

        def w_p1(m, where, a=a):
            sa, sb, data, k = scen_pair(m)
            out = ck.replay([sa])[0]
            c = native_outcome(out)
            body = mval(m, H.body)
            desc = f"opcode 0x{mval(m, H.opcode):02x} key_len {mval(m, H.keylen)} extras_len {mval(m, H.extlen)} body_len {body}: " \
                   f"decode -> {c['result']} {c.get('variant', '')} consuming {c['consumed_total']} bytes instead of {24 + body}"
            if c['result'] != 'some':
                return None, desc, sa
            return (c['consumed_total'] != 24 + body), desc, sa

        if a.tag == 'some':
            ck.cover('decoded:' + names[a.req.var], True)
            ck.obligation('P1-exact-consumption', pc, z3.Or(oversized, a.consumed == 24 + H.body64), R, w_p1, small)
            # P4: parser back in initial state
            st = a.codec.fields[1]
            if not (isinstance(st, Enum) and st.var == 0):
                ck.obligation('P4-parser-reset', pc, z3.BoolVal(False), R, None)
            else:
                ck.obligations += 1
                ck.discharged += 1
        if a.tag == 'none':
            def w_p2(m, where):
                sa, sb, data, k = scen_pair(m)
                out = ck.replay([sa])[0]
                c = native_outcome(out)
                body = mval(m, H.body)
                desc = f"opcode 0x{mval(m, H.opcode):02x} body_len {body} with all {len(data)} bytes buffered: decode -> {c['result']} " \
                       f"(consumed {c['consumed_total']}): the request is neither answered nor refused"
                return (c['result'] == 'none' and len(data) >= 24 + body and body <= mval(m, limit)), desc, sa
            ck.obligation('P2-no-silent-stall', pc,
                          z3.Or(z3.ULT(total, 24), z3.And(z3.Not(oversized), z3.ULT(total, 24 + H.body64))), R, w_p2, small)
            ck.cover('need-more', True)

        # P3: same outcome whatever the split
        def w_p3(m, where):
            sa, sb, data, k = scen_pair(m)
            oa, ob = ck.replay([sa, sb])
            ca, cb = native_outcome(oa), native_outcome(ob)
            desc = f"opcode 0x{mval(m, H.opcode):02x} key_len {mval(m, H.keylen)} extras_len {mval(m, H.extlen)} body_len {mval(m, H.body)}, " \
                   f"{len(data)} stream bytes: one-shot -> {ca['result']} {ca.get('variant', '')} ({ca['consumed_total']} consumed), " \
                   f"split at {k} -> {cb['result']} {cb.get('variant', '')} ({cb['consumed_total']} consumed)"
            differ = (ca['result'], ca.get('debug'), ca['consumed_total']) != (cb['result'], cb.get('debug'), cb['consumed_total'])
            return differ, desc, [sa, sb]
        if a.tag != b.tag or (a.tag == 'some' and a.req.var != b.req.var):
            eq = z3.BoolVal(False)
        elif a.tag == 'some':
            eq = z3.And(same(a.req, b.req), a.consumed == b.consumed)
        elif a.tag == 'none':
            eq = a.consumed == b.consumed
        else:
            eq = z3.BoolVal(True)
        ck.obligation('P3-segmentation-independence', pc, eq, R, w_p3, small)
        if b.ncalls == 2 and b.tag == 'some':
            ck.cover('resumed-after-partial-delivery', True)
        if len(validate) < replay_budget:
            validate.append((p, a, b))

    # translator validation: every sampled path's own witness, executed natively, must do what the engine predicts
    scs = []
    preds = []
    for p, a, b in validate:
        m = ck.witness(p.pc, small)
        if m is None or m == 'unknown' or mval(m, total) > (1 << 20):
            continue
        sa, sb, data, k = scen_pair(m)
        scs += [sa, sb]
        preds.append((describe(E, a), mval(m, a.consumed), describe(E, b), mval(m, b.consumed)))
    if scs:
        outs = ck.replay(scs)
        for i, pr in enumerate(preds):
            ca, cb = native_outcome(outs[2 * i]), native_outcome(outs[2 * i + 1])
            na = ca['result'] + (':' + ca['variant'] if 'variant' in ca else '')
            nb = cb['result'] + (':' + cb['variant'] if 'variant' in cb else '')
            # a native panic is predicted as a panic path and filtered above; compare the rest
            ok_ = (na, ca['consumed_total'], nb, cb['consumed_total']) == pr
            if ok_:
                ck.replays_ok += 1
            else:
                ck.replays_bad += 1
                ck.inconclusive.append(f'translator validation mismatch: engine {pr} native {(na, ca["consumed_total"], nb, cb["consumed_total"])} on {scs[2*i+1]}')
    for need in ('decoded:Set', 'decoded:Get', 'decoded:Increment', 'decoded:Noop', 'decoded:Flush', 'decoded:Append',
                 'decoded:Delete', 'need-more', 'resumed-after-partial-delivery'):
        ck.covers.setdefault(need, False)
    # socket level
    from . import sock_common
    sock_common.c09_socket(ck, tier)
    # connection-loop level: the same pipelines under every way of cutting them into reads (symbolic read sizes) produce the
    # responses the requests determine - executed by the real Client::handle (see C12 for the full menu)
    from . import C12
    items = [(4, 'silent'), (0, 'eof'), (3, 'silent')] if tier == 'quick' else [(f, e) for f in range(8) for e in ('eof', 'silent')]
    ck.fork_map(items, lambda c, it: C12.explore_first(c, it[0], 2, 8, tier, it[1]))
    return ck.finish()


def do_replay(ck, path):
    ck.engine()
    sc = json.load(open(path))
    scs = sc if isinstance(sc, list) else [sc]
    outs = ck.replay(scs)
    print(json.dumps(outs, indent=1))
    return 0


if __name__ == '__main__':
    main(run)

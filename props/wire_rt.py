"""Wire-level round trip shared by C01 / C06 / C07 / C08: one canonical request frame of the chosen opcode families through
the real decode -> BinaryHandler::handle_request -> encode_message from an arbitrary well-formed store state, for the plain
store and behind the random-eviction layer with its limit out of reach.  Obligations are keyed on the frame's *opcode*
(the protocol's table below), so that a decoder or dispatcher that routes an opcode to the wrong command is seen."""
import z3
from .common import *
from .wire import *
from .world import St
from . import handler_common as HC
from mirse.models.bytesm import Buf, Rope, VTerm, WIRE, Val, vnum, visnum, vutf8
from mirse.models.bytesm import vlen as vlen_

OPCODE_OF = {'Get': 0x00, 'Set': 0x01, 'Add': 0x02, 'Replace': 0x03, 'Delete': 0x04, 'Increment': 0x05, 'Decrement': 0x06,
             'Flush': 0x08, 'GetQuietly': 0x09, 'GetKey': 0x0c, 'GetKeyQuietly': 0x0d, 'Append': 0x0e, 'Prepend': 0x0f,
             'SetQuietly': 0x11, 'AddQuietly': 0x12, 'ReplaceQuietly': 0x13, 'DeleteQuiet': 0x14, 'IncrementQuiet': 0x15,
             'DecrementQuiet': 0x16, 'FlushQuietly': 0x18, 'AppendQuietly': 0x19, 'PrependQuietly': 0x1a}
CMD_OF = {'Set': 'set', 'SetQuietly': 'set', 'Add': 'add', 'AddQuietly': 'add', 'Replace': 'replace', 'ReplaceQuietly': 'replace',
          'Append': 'append', 'AppendQuietly': 'append', 'Prepend': 'prepend', 'PrependQuietly': 'prepend',
          'Increment': 'increment', 'IncrementQuiet': 'increment', 'Decrement': 'decrement', 'DecrementQuiet': 'decrement'}
FAMILIES = {'store': SET_FAMILY, 'concat': APPEND_FAMILY, 'get': GET_FAMILY, 'counter': INCDEC_FAMILY,
            'delete': DELETE_FAMILY, 'flush': FLUSH_FAMILY}

H = Hdr(0)


def be(lo, n):
    return z3.Concat(*[B(lo + i) for i in range(n)])


def wire_roundtrip(ck, tier, families=('store', 'concat', 'get', 'counter')):
    E = ck.E
    st = St(2)
    names = {v: k for k, v in E.enums['BinaryRequest']}
    for policy in (None, 'random'):
        mlim = z3.BitVec('mem_limit', 64) if policy else None

        def h(E, policy=policy, mlim=mlim):
            HC.base_assume(E, st)
            shapes = {'store': z3.And(H.op_in(*SET_FAMILY), H.extlen == 8),
                      'concat': z3.And(H.op_in(*APPEND_FAMILY), H.extlen == 0),
                      'get': z3.And(H.op_in(*GET_FAMILY), H.extlen == 0, H.body64 == H.key64),
                      'counter': z3.And(H.op_in(*INCDEC_FAMILY), H.extlen == 20, H.body64 == 20 + H.key64),
                      'delete': z3.And(H.op_in(*DELETE_FAMILY), H.extlen == 0, H.body64 == H.key64),
                      'flush': z3.And(H.op_in(*FLUSH_FAMILY), z3.Or(z3.And(H.extlen == 0, H.body == 0), z3.And(H.extlen == 4, H.body == 4)), H.keylen == 0)}
            E.assume(z3.Or([shapes[f] for f in families]), z3.ULE(H.body, HC.limit))
            if policy:
                E.assume(z3.ULE(st.usage, mlim), z3.ULT(mlim, 1 << 62), z3.UGE(mlim - st.usage, BV(1 << 33)))
            return HC.run_request(E, st, policy=policy, memory_limit=mlim)
        res = ck.explore(h)
        small = [z3.ULE(HC.total, 128), z3.ULE(st.cas_id, 1000), z3.ULE(st.now, 100000)]
        tag = 'wire' if not policy else 'wire+random-policy'
        nval = 0
        for p in res:
            if p.status != 'ok':
                continue
            x = p.out
            if x.tag != 'some':
                continue
            v = names[x.req_variant]
            pc = p.pc
            if v in OPCODE_OF:
                ck.obligation(f'{tag}: the opcode is decoded to its own command', pc, H.opcode == OPCODE_OF[v], {}, None, small)
            else:
                ck.obligation(f'{tag}: the opcode is decoded to its own command ({v})', pc, z3.BoolVal(False), {}, None, small)

            def on_w(m, where, x=x, policy=policy, mlim=mlim):
                return HC.confirm(ck, m, st, x, policy, mlim)
            evict = [e for e in p.events if e[0] in ('map.iter', 'rng')]
            if policy:
                ck.obligation(f'{tag}: no eviction below the limit', pc, z3.BoolVal(not evict), {}, on_w, small)
            # every key the handler hands to the store is exactly the frame's key bytes: offset 24 + extras_length, key_length long
            if v not in ('Flush', 'FlushQuietly'):
                kok = []
                for kv in x.keys_seen:
                    if isinstance(kv, Buf) and kv.base.eq(WIRE):
                        kok.append(z3.And(kv.off == 24 + H.ext64, kv.len == H.key64))
                    else:
                        kok.append(z3.BoolVal(False))
                def on_key(m, where):
                    # independent of the store: what the real decoder reports as the request's key (Debug output of the request)
                    import re, ast
                    n = mval(m, HC.total)
                    data = wire_bytes(m, n)
                    el, kl = mval(m, H.extlen), mval(m, H.keylen)
                    want = data[24 + el:24 + el + kl]
                    sc = {'kind': 'decode', 'item_limit': mval(m, HC.limit), 'chunks': [data.hex()], 'loop': False}
                    c = ck.replay([sc])[0]['calls'][0]
                    got = None
                    mm = re.search(r'key: b"((?:[^"\\]|\\.)*)"', c.get('debug', ''))
                    if mm:
                        try:
                            got = ast.literal_eval('b"' + mm.group(1) + '"')
                        except (SyntaxError, ValueError):
                            got = None
                    desc = f"opcode 0x{mval(m, H.opcode):02x} extras_length {el} key_length {kl}: the frame's key bytes are {want!r}, the decoded request carries {got!r}"
                    if got is None:
                        return None, desc, sc
                    return (True if got != want else None), desc, sc
                ck.obligation(f'{tag}: the store is addressed with exactly the key bytes of the frame', pc,
                              z3.And(kok) if kok else z3.BoolVal(False), {}, on_key, small)
            r = HC.RespView(E, x.data) if x.data is not None else None
            # the outcome class (ok / not found / key exists / non-numeric) is the reference model's for the command this OPCODE
            # names, with the request fields read off the frame; a quiet opcode is silent exactly on success
            base_cmd = CMD_OF.get(v)
            if base_cmd is not None:
                from .spec import expect

                class WireIn:
                    pass
                wi = WireIn()
                wi.cas = H.cas
                wi.val = z3.Const('wire_value', Val)
                if base_cmd in ('increment', 'decrement'):
                    wi.delta, wi.init, wi.ttl, wi.flags = be(24, 8), be(32, 8), be(40, 4), BV(0, 32)
                elif base_cmd in ('set', 'add', 'replace'):
                    wi.flags, wi.ttl = be(24, 4), be(28, 4)
                else:
                    wi.flags, wi.ttl = BV(0, 32), BV(0, 32)
                ex = expect(base_cmd, 0, st, wi)
                kind16 = z3.ZeroExt(8, ex.kind)
                spec_ok = z3.Not(ex.unspec)
                if r is not None:
                    cond = r.status == kind16
                    if v.endswith(('Quietly', 'Quiet')):
                        cond = z3.And(cond, kind16 != 0)
                    ck.obligation(f'{tag}: the outcome class of {base_cmd} is the specified one (status of the response)', pc, z3.Implies(spec_ok, cond), {}, on_w, small)
                else:
                    ck.obligation(f'{tag}: quiet {base_cmd} is silent only on success', pc, z3.Implies(spec_ok, kind16 == 0), {}, on_w, small)
            post = x.post[0]
            other = x.post[1]
            if v not in ('Flush', 'FlushQuietly'):
              ck.obligation(f'{tag}: other key untouched', pc,
                            z3.And(other['present'] == st.present[1], same(other['val'], VTerm(st.val[1])), other['flags'] == st.flags[1],
                                   other['cas'] == st.cas[1], other['ts'] == st.ts[1], other['ttl'] == st.ttl[1]), {}, on_w, small)
            acked = r is None or z3.is_true(z3.simplify(r.status == 0)) if r is None else None
            status0 = z3.BoolVal(True) if r is None else (r.status == 0)
            if v in ('Set', 'SetQuietly', 'Add', 'AddQuietly', 'Replace', 'ReplaceQuietly'):
                val = post['val']
                ok_store = z3.BoolVal(False)
                if isinstance(val, Buf) and val.base.eq(WIRE):
                    ok_store = z3.And(post['present'], val.off == 32 + H.key64, val.len == H.body64 - 8 - H.key64,
                                      post['flags'] == be(24, 4), post['ttl'] == be(28, 4), post['cas'] != 0, post['ts'] == st.now)
                # acknowledged <=> response status 0 (loud) / no response (quiet)
                if r is not None:
                    ck.obligation(f'{tag}: acknowledged store holds exactly the frame\'s value, flags, expiration', pc,
                                  z3.Implies(r.status == 0, z3.And(ok_store, r.cas == post['cas'])), {}, on_w, small)
                else:
                    ck.obligation(f'{tag}: silently acknowledged store holds exactly the frame\'s value, flags, expiration', pc, ok_store, {}, on_w, small)
                ck.cover(f'{tag}: store ' + v, True)
            elif v in ('Append', 'AppendQuietly', 'Prepend', 'PrependQuietly'):
                val = post['val']
                ok_store = z3.BoolVal(False)
                if isinstance(val, Rope) and len(val.parts) == 2:
                    a, b = val.parts
                    if v.startswith('Prepend'):
                        a, b = b, a
                    if a[0] == 'val' and b[0] == 'buf' and b[1].base.eq(WIRE):
                        ok_store = z3.And(a[1] == st.val[0], b[1].off == 24 + H.key64, b[1].len == H.body64 - H.key64,
                                          post['flags'] == st.flags[0], post['present'])
                ck.obligation(f'{tag}: acknowledged append/prepend stores old+suffix / prefix+old, flags kept', pc,
                              z3.Implies(status0, ok_store), {}, on_w, small)
                ck.cover(f'{tag}: concat ' + v, True)
            elif v in ('Get', 'GetQuietly', 'GetKey', 'GetKeyQuietly'):
                if r is not None:
                    pl = r.payload
                    hit_ok = z3.BoolVal(False)
                    if len(pl) >= 2 and pl[0][0] == 'bv' and pl[-1][0] == 'val':
                        hit_ok = z3.And(pl[0][1] == st.flags[0], pl[-1][1] == st.val[0], r.cas == st.cas[0], r.cas != 0)
                    ck.obligation(f'{tag}: get hit returns exactly the stored value, flags, cas', pc, z3.Implies(r.status == 0, hit_ok), {}, on_w, small)
                    ck.obligation(f'{tag}: get hits exactly live items', pc, (r.status == 0) == st.live(0), {}, on_w, small)
                    ck.cover(f'{tag}: get answered', True)
                else:
                    ck.obligation(f'{tag}: quiet get is silent only on a miss', pc, z3.Not(st.live(0)), {}, on_w, small)
            elif v in ('Increment', 'IncrementQuiet', 'Decrement', 'DecrementQuiet'):
                delta, init, exp = be(24, 8), be(32, 8), be(40, 4)
                if r is not None:
                    pl = r.payload
                    okv = z3.BoolVal(False)
                    if len(pl) == 1 and pl[0][0] == 'bv' and pl[0][1].size() == 64:
                        old = vnum(st.val[0])
                        if v.startswith('Incr'):
                            nv = old + delta
                        else:
                            nv = z3.If(z3.UGT(delta, old), BV(0), old - delta)
                        okv = pl[0][1] == z3.If(st.live(0), nv, init)
                    ck.obligation(f'{tag}: counter response value from the right frame bytes', pc, z3.Implies(r.status == 0, okv), {}, on_w, small)
                    ck.obligation(f'{tag}: counter creation honours expiration 0xffffffff', pc,
                                  z3.Implies(z3.Not(st.live(0)), (r.status == 0) == (exp != BV(0xffffffff, 32))), {}, on_w, small)
                    ck.cover(f'{tag}: counter answered', True)
            elif v in ('Delete', 'DeleteQuiet'):
                # an expired-but-uncollected item is outside the statement (memc-rs reports its removal as a success)
                specd = z3.Or(st.live(0), z3.Not(st.present[0]))
                hit = z3.And(st.live(0), z3.Or(H.cas == 0, H.cas == st.cas[0]))
                untouched = z3.And(post['present'] == st.present[0], post['cas'] == st.cas[0], post['flags'] == st.flags[0],
                                   post['ts'] == st.ts[0], post['ttl'] == st.ttl[0], same(post['val'], VTerm(st.val[0])))
                ck.obligation(f'{tag}: delete removes the addressed key iff it is stored and the CAS is 0 or matches', pc,
                              z3.Implies(specd, z3.If(hit, z3.Not(post['present']), untouched)), {}, on_w, small)
                if r is not None:
                    want = z3.If(hit, BV(0, 16), z3.If(st.live(0), BV(2, 16), BV(1, 16)))
                    ck.obligation(f'{tag}: delete answers ok / not found / key exists', pc, z3.Implies(specd, r.status == want), {}, on_w, small)
                else:
                    ck.obligation(f'{tag}: quiet delete is silent only on success', pc, z3.Implies(specd, hit), {}, on_w, small)
                ck.cover(f'{tag}: delete ' + v, True)
            elif v in ('Flush', 'FlushQuietly'):
                delay = z3.If(H.extlen == 4, be(24, 4), BV(0, 32))
                for i in (0, 1):
                    e = x.post[i]
                    dl_old = z3.If(st.ttl[i] == 0, BV((1 << 64) - 1), st.ts[i] + z3.ZeroExt(32, st.ttl[i]))
                    dl_new = z3.If(e['ttl'] == 0, BV((1 << 64) - 1), e['ts'] + z3.ZeroExt(32, e['ttl']))
                    vis_new = z3.And(e['present'], z3.ULT(st.now, dl_new))
                    ck.obligation(f'{tag}: immediate flush leaves nothing retrievable (key{i})', pc, z3.Implies(delay == 0, z3.Not(vis_new)), {}, on_w, small)
                    ck.obligation(f'{tag}: delayed flush: every stored item is gone at now + delay at the latest and none lives longer than before (key{i})', pc,
                                  z3.Implies(z3.And(delay != 0, e['present']), z3.And(st.present[i], z3.ULE(dl_new, st.now + z3.ZeroExt(32, delay)), z3.ULE(dl_new, dl_old),
                                                                                     same(e['val'], VTerm(st.val[i])), e['flags'] == st.flags[i], e['cas'] == st.cas[i])), {}, on_w, small)
                if r is not None:
                    ck.obligation(f'{tag}: flush answers ok', pc, r.status == 0, {}, on_w, small)
                ck.cover(f'{tag}: flush ' + v, True)
            if nval < (25 if tier == 'quick' else 10 ** 6):
                m = ck.witness(list(pc) + [z3.ULE(HC.total, 4096)] + [z3.ULE(vlen_(v_), 512) for v_ in st.val], small)
                if m is not None and m != 'unknown':
                    nval += 1
                    okc, desc, sc = HC.confirm(ck, m, st, x, policy, mlim)
                    if okc:
                        ck.replays_ok += 1
                    else:
                        ck.replays_bad += 1
                        ck.inconclusive.append('translator validation (wire level): ' + desc)
        ck.sample({'level': tag, 'paths': len(res)})



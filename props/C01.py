"""C01 - stored data is returned exactly; key isolation (store level: one-step refinement + frame conditions;
wire level: see handler_checks)."""
from .common import *
from .store_checks import run_store_checks


def run(tier, seed, replay_path=None):
    ck = Check('C01', tier, seed)
    if replay_path:
        return generic_replay(ck, replay_path)
    ck.engine()
    run_store_checks(ck, ['set', 'get', 'add', 'replace', 'append', 'prepend', 'increment', 'decrement', 'delete', 'flush'], {'value', 'flags', 'frame', 'vis', 'result', 'invariant'}, K=2, tier=tier)
    return ck.finish()


if __name__ == '__main__':
    main(run)

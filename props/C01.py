"""C01 - stored data is returned exactly; key isolation.

(1) store level: one-step refinement of every MemcStore command against the reference model from an arbitrary well-formed
    state (values/flags returned exactly, frame condition on the other key, visibility changes only as specified, stored CAS
    non-zero) - histories of any length by induction over the checked state invariant;
(2) wire level: one canonical request frame through the real decode -> handle_request -> encode_message: what an
    acknowledged set/add/replace/append/prepend stores is exactly the frame's value bytes, flags and expiration; what a get
    hit sends back is exactly the stored value term, flags and CAS; counters take delta/initial/expiration from the right bytes;
(3) both for the plain store and for random eviction with a limit that is not reached (no eviction event may occur).
"""
import z3
from .common import *
from .wire import *
from .world import St
from .store_checks import run_store_checks
from .store_common import CMDS
from . import handler_common as HC
from mirse.models.bytesm import Buf, Rope, VTerm, WIRE, vnum, visnum, vutf8

H = Hdr(0)


def be(lo, n):
    return z3.Concat(*[B(lo + i) for i in range(n)])


def wire_roundtrip(ck, tier):
    E = ck.E
    st = St(2)
    names = {v: k for k, v in E.enums['BinaryRequest']}
    for policy in (None, 'random'):
        mlim = z3.BitVec('mem_limit', 64) if policy else None

        def h(E, policy=policy, mlim=mlim):
            HC.base_assume(E, st)
            canon = z3.Or(z3.And(H.op_in(*SET_FAMILY), H.extlen == 8),
                          z3.And(H.op_in(*APPEND_FAMILY), H.extlen == 0),
                          z3.And(H.op_in(*GET_FAMILY), H.extlen == 0, H.body64 == H.key64),
                          z3.And(H.op_in(*INCDEC_FAMILY), H.extlen == 20, H.body64 == 20 + H.key64))
            E.assume(canon, z3.ULE(H.body, HC.limit))
            if policy:
                E.assume(z3.ULE(st.usage, mlim), z3.ULT(mlim, 1 << 62), z3.UGE(mlim - st.usage, BV(1 << 33)))
            return HC.run_request(E, st, policy=policy, memory_limit=mlim)
        res = ck.explore(h)
        small = [z3.ULE(HC.total, 128), z3.ULE(st.cas_id, 1000), z3.ULE(st.now, 100000)]
        tag = 'wire' if not policy else 'wire+random-policy'
        nval = 0
        for p in res:
            if p.status != 'ok':
                continue
            x = p.out
            if x.tag != 'some':
                continue
            v = names[x.req_variant]
            pc = p.pc

            def on_w(m, where, x=x, policy=policy, mlim=mlim):
                return HC.confirm(ck, m, st, x, policy, mlim)
            evict = [e for e in p.events if e[0] in ('map.iter', 'rng')]
            if policy:
                ck.obligation(f'{tag}: no eviction below the limit', pc, z3.BoolVal(not evict), {}, on_w, small)
            r = HC.RespView(E, x.data) if x.data is not None else None
            post = x.post[0]
            other = x.post[1]
            ck.obligation(f'{tag}: other key untouched', pc,
                          z3.And(other['present'] == st.present[1], same(other['val'], VTerm(st.val[1])), other['flags'] == st.flags[1],
                                 other['cas'] == st.cas[1], other['ts'] == st.ts[1], other['ttl'] == st.ttl[1]), {}, on_w, small)
            acked = r is None or z3.is_true(z3.simplify(r.status == 0)) if r is None else None
            status0 = z3.BoolVal(True) if r is None else (r.status == 0)
            if v in ('Set', 'SetQuietly', 'Add', 'AddQuietly', 'Replace', 'ReplaceQuietly'):
                val = post['val']
                ok_store = z3.BoolVal(False)
                if isinstance(val, Buf) and val.base.eq(WIRE):
                    ok_store = z3.And(post['present'], val.off == 32 + H.key64, val.len == H.body64 - 8 - H.key64,
                                      post['flags'] == be(24, 4), post['ttl'] == be(28, 4), post['cas'] != 0, post['ts'] == st.now)
                # acknowledged <=> response status 0 (loud) / no response (quiet)
                if r is not None:
                    ck.obligation(f'{tag}: acknowledged store holds exactly the frame\'s value, flags, expiration', pc,
                                  z3.Implies(r.status == 0, z3.And(ok_store, r.cas == post['cas'])), {}, on_w, small)
                else:
                    ck.obligation(f'{tag}: silently acknowledged store holds exactly the frame\'s value, flags, expiration', pc, ok_store, {}, on_w, small)
                ck.cover(f'{tag}: store ' + v, True)
            elif v in ('Append', 'AppendQuietly', 'Prepend', 'PrependQuietly'):
                val = post['val']
                ok_store = z3.BoolVal(False)
                if isinstance(val, Rope) and len(val.parts) == 2:
                    a, b = val.parts
                    if v.startswith('Prepend'):
                        a, b = b, a
                    if a[0] == 'val' and b[0] == 'buf' and b[1].base.eq(WIRE):
                        ok_store = z3.And(a[1] == st.val[0], b[1].off == 24 + H.key64, b[1].len == H.body64 - H.key64,
                                          post['flags'] == st.flags[0], post['present'])
                ck.obligation(f'{tag}: acknowledged append/prepend stores old+suffix / prefix+old, flags kept', pc,
                              z3.Implies(status0, ok_store), {}, on_w, small)
                ck.cover(f'{tag}: concat ' + v, True)
            elif v in ('Get', 'GetQuietly', 'GetKey', 'GetKeyQuietly'):
                if r is not None:
                    pl = r.payload
                    hit_ok = z3.BoolVal(False)
                    if len(pl) >= 2 and pl[0][0] == 'bv' and pl[-1][0] == 'val':
                        hit_ok = z3.And(pl[0][1] == st.flags[0], pl[-1][1] == st.val[0], r.cas == st.cas[0], r.cas != 0)
                    ck.obligation(f'{tag}: get hit returns exactly the stored value, flags, cas', pc, z3.Implies(r.status == 0, hit_ok), {}, on_w, small)
                    ck.obligation(f'{tag}: get hits exactly live items', pc, (r.status == 0) == st.live(0), {}, on_w, small)
                    ck.cover(f'{tag}: get answered', True)
                else:
                    ck.obligation(f'{tag}: quiet get is silent only on a miss', pc, z3.Not(st.live(0)), {}, on_w, small)
            elif v in ('Increment', 'IncrementQuiet', 'Decrement', 'DecrementQuiet'):
                delta, init, exp = be(24, 8), be(32, 8), be(40, 4)
                if r is not None:
                    pl = r.payload
                    okv = z3.BoolVal(False)
                    if len(pl) == 1 and pl[0][0] == 'bv' and pl[0][1].size() == 64:
                        old = vnum(st.val[0])
                        if v.startswith('Incr'):
                            nv = old + delta
                        else:
                            nv = z3.If(z3.UGT(delta, old), BV(0), old - delta)
                        okv = pl[0][1] == z3.If(st.live(0), nv, init)
                    ck.obligation(f'{tag}: counter response value from the right frame bytes', pc, z3.Implies(r.status == 0, okv), {}, on_w, small)
                    ck.obligation(f'{tag}: counter creation honours expiration 0xffffffff', pc,
                                  z3.Implies(z3.Not(st.live(0)), (r.status == 0) == (exp != BV(0xffffffff, 32))), {}, on_w, small)
                    ck.cover(f'{tag}: counter answered', True)
            if nval < (25 if tier == 'quick' else 10 ** 6):
                m = ck.witness(list(pc) + [z3.ULE(HC.total, 4096)], small)
                if m is not None and m != 'unknown':
                    nval += 1
                    okc, desc, sc = HC.confirm(ck, m, st, x, policy, mlim)
                    if okc:
                        ck.replays_ok += 1
                    else:
                        ck.replays_bad += 1
                        ck.inconclusive.append('translator validation (wire level): ' + desc)
        ck.sample({'level': tag, 'paths': len(res)})


def run(tier, seed, replay_path=None):
    ck = Check('C01', tier, seed)
    if replay_path:
        return generic_replay(ck, replay_path)
    ck.engine()
    run_store_checks(ck, CMDS, {'value', 'flags', 'frame', 'vis', 'result', 'invariant'}, K=2, tier=tier)
    from . import C02
    C02.bmc_nonzero(ck, tier)
    wire_roundtrip(ck, tier)
    return ck.finish()


if __name__ == '__main__':
    main(run)

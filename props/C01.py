"""C01 - stored data is returned exactly; key isolation.

(1) store level: one-step refinement of every MemcStore command against the reference model from an arbitrary well-formed
    state (values/flags returned exactly, frame condition on the other key, visibility changes only as specified, stored CAS
    non-zero) - histories of any length by induction over the checked state invariant;
(2) wire level: one canonical request frame through the real decode -> handle_request -> encode_message: what an
    acknowledged set/add/replace/append/prepend stores is exactly the frame's value bytes, flags and expiration; what a get
    hit sends back is exactly the stored value term, flags and CAS; counters take delta/initial/expiration from the right bytes;
(3) both for the plain store and for random eviction with a limit that is not reached (no eviction event may occur).
"""
import z3
from .common import *
from .wire import *
from .world import St
from .store_checks import run_store_checks
from .store_common import CMDS
from . import handler_common as HC
from mirse.models.bytesm import Buf, Rope, VTerm, WIRE, vnum, visnum, vutf8

from .wire_rt import wire_roundtrip


def run(tier, seed, replay_path=None):
    ck = Check('C01', tier, seed)
    if replay_path:
        return generic_replay(ck, replay_path)
    ck.engine()
    run_store_checks(ck, CMDS, {'value', 'flags', 'frame', 'vis', 'result', 'invariant'}, K=2, tier=tier)
    from . import C02
    C02.bmc_nonzero(ck, tier)
    wire_roundtrip(ck, tier)
    # what a client reads back over a connection (the write path behind the encoder): part by part the encoder's output
    from . import C11
    C11.connection_level(ck, tier)
    return ck.finish()


if __name__ == '__main__':
    main(run)

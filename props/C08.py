"""C08 - delete and flush remove exactly what they should.

(1) one-step refinement of delete / flush / set at store level (both store variants), (2) TTL/flush history BMC, (3) wire round
trip of the delete and flush opcodes, (4) "no effect if the CAS does not match" also under concurrency: all schedules of a
CAS-carrying delete racing a store / another delete on the same key (the check and the removal must be one atomic step)."""
from .common import *
from .store_checks import run_store_checks


def run(tier, seed, replay_path=None):
    ck = Check('C08', tier, seed)
    if replay_path:
        return generic_replay(ck, replay_path)
    ck.engine()
    from . import ttl_bmc
    run_store_checks(ck, ['delete', 'flush', 'set'], {'kind', 'vis', 'deadline', 'frame', 'value'}, K=2, tier=tier)
    ttl_bmc.run(ck, tier, {'flush'})
    from .wire_rt import wire_roundtrip
    wire_roundtrip(ck, tier, ('delete', 'flush'))
    from .conc_checks import explore_program

    def set_cas0(progs, st):
        return [inp.cas == 0 for p in progs for c, inp in p if c == 'set']
    progs = [[['delete'], ['set']], [['delete'], ['delete']]] + ([] if tier == 'quick' else [[['delete'], ['set'], ['get']], [['delete', 'get'], ['set']]])
    ck.fork_map(progs, lambda c, names: explore_program(c, names, constraints=set_cas0))
    # expiry under concurrency: an item that is past its deadline (its own TTL, or a delayed flush that has come due) stays
    # unretrievable whatever another client does to the key meanwhile (all schedules, linearizability against the reference)
    from .conc_checks import explore_program
    import z3 as _z3

    def expired_item(progs, st):
        return [st.present[0], _z3.Not(st.live(0))] + [inp.cas == 0 for p in progs for c_, inp in p if c_ in ('set', 'add')]
    # (a delete meeting an expired-but-uncollected item has no contract - memc-rs reports it as removed - and is left out)
    cprogs = [[['get'], ['get']], [['get'], ['set']], [['get'], ['add']]]
    ck.fork_map(cprogs, lambda c, names: explore_program(c, names, constraints=expired_item, allow_stale=True))
    return ck.finish()


if __name__ == '__main__':
    main(run)

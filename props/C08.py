"""C08 - delete and flush remove exactly what they should."""
from .common import *
from .store_checks import run_store_checks


def run(tier, seed, replay_path=None):
    ck = Check('C08', tier, seed)
    if replay_path:
        return generic_replay(ck, replay_path)
    ck.engine()
    from . import ttl_bmc
    run_store_checks(ck, ['delete', 'flush', 'set'], {'kind', 'vis', 'deadline', 'frame', 'value'}, K=2, tier=tier)
    ttl_bmc.run(ck, tier, {'flush'})
    return ck.finish()


if __name__ == '__main__':
    main(run)

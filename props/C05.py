"""C05 - expiry: items live for their TTL and never longer (visibility and deadline of every key after every command,
for every clock value; expired items are absent for every presence-dependent command; nothing prolongs a life)."""
from .common import *
from .store_checks import run_store_checks


def run(tier, seed, replay_path=None):
    ck = Check('C05', tier, seed)
    if replay_path:
        return generic_replay(ck, replay_path)
    ck.engine()
    from . import ttl_bmc
    run_store_checks(ck, ['set', 'get', 'add', 'replace', 'append', 'prepend', 'increment', 'decrement', 'delete', 'flush'], {'vis', 'deadline', 'kind'}, K=2, tier=tier)
    ttl_bmc.run(ck, tier, {'ttl'})
    return ck.finish()


if __name__ == '__main__':
    main(run)

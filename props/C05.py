"""C05 - expiry: items live for their TTL and never longer (visibility and deadline of every key after every command,
for every clock value; expired items are absent for every presence-dependent command; nothing prolongs a life)."""
from .common import *
from .store_checks import run_store_checks


def run(tier, seed, replay_path=None):
    ck = Check('C05', tier, seed)
    if replay_path:
        return generic_replay(ck, replay_path)
    ck.engine()
    from . import ttl_bmc
    run_store_checks(ck, ['set', 'get', 'add', 'replace', 'append', 'prepend', 'increment', 'decrement', 'delete', 'flush'], {'vis', 'deadline', 'kind'}, K=2, tier=tier)
    ttl_bmc.run(ck, tier, {'ttl'})
    # expiry under concurrency: an item that is past its deadline (its own TTL, or a delayed flush that has come due) stays
    # unretrievable whatever another client does to the key meanwhile (all schedules, linearizability against the reference)
    from .conc_checks import explore_program
    import z3 as _z3

    def expired_item(progs, st):
        return [st.present[0], _z3.Not(st.live(0))] + [inp.cas == 0 for p in progs for c_, inp in p if c_ in ('set', 'add')]
    # (a delete meeting an expired-but-uncollected item has no contract - memc-rs reports it as removed - and is left out)
    cprogs = [[['get'], ['get']], [['get'], ['set']], [['get'], ['add']]]
    ck.fork_map(cprogs, lambda c, names: explore_program(c, names, constraints=expired_item, allow_stale=True))
    return ck.finish()


if __name__ == '__main__':
    main(run)

"""C15 - no eviction without memory pressure (accounting tracks content).

(1) hook form, one step: from any state in which the accounted usage equals the total size of the stored records, after any
    command it still does (native replay reads the counter through the cfg(memcrs_verif) accessor);
(2) behavioural form, bounded histories from the empty store: while the stored data fits under the limit no live item is evicted.
"""
from .common import *
from . import policy_checks as PC


def run(tier, seed, replay_path=None):
    ck = Check('C15', tier, seed)
    if replay_path:
        return generic_replay(ck, replay_path)
    ck.engine()
    ck.bounds.update({'keys': 2, 'limit': 'any u64 < 2^62 (one-step) / < 2^40 (histories)', 'eviction sweep': 'unwound keys+3 times'})
    ck.assumptions += ['DashMap iteration visits the present entries in some order; the victim index is an arbitrary value in range',
                       'record size = 24-byte header + value length', 'library models of DESIGN 3.3']
    PC.run_c15_step(ck, tier)
    PC.run_c15_bmc(ck, tier)
    # two clients: accounting after a store racing a delete / a get of the same (initially absent) key
    from . import C16
    names = ['evicting set||delete'] + ([] if tier == 'quick' else ['evicting set||set']) + [ 'set||get (policy)', 'get||get (policy, expired item)', 'get||delete (policy, expired item)']
    ck.fork_map(names, lambda c, name: C16.run_item(c, ('policy', name), tier))
    return ck.finish()


if __name__ == '__main__':
    main(run)

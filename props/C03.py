"""C03 - concurrent get / set / CAS-set / delete on a key are atomic (linearizable).

Each client is a simulated thread executing the real MemcStore method from its MIR; every interleaving of the store's
steps on shared state (DashMap calls, atomics; guards hold their shard lock until dropped) is explored for small client
programs, with the initial state of the key (absent / live / expired-but-uncollected), all request fields and the CAS
counter symbolic.  Per (schedule, path) the solver decides whether some one-at-a-time order explains the responses and the
final content (CAS values compared as tokens).  Plus the named consequences as direct assertions: of two CAS-stores carrying
the same CAS on a live item at most one succeeds; an acknowledged store is never undone by a concurrent retrieval.
"""
import z3
from .common import *
from .conc_checks import explore_program
from .conc_common import OK_


def cas0(which):
    def f(progs, st):
        return [progs[t][i][1].cas == 0 for t, i in which]
    return f


def same_cas_at_most_one(progs, obs, final, st):
    a, b = obs[0][0], obs[1][0]
    ia, ib = progs[0][0][1], progs[1][0][1]
    both_ok = z3.BoolVal(a.kind == OK_ and b.kind == OK_)
    return z3.Not(z3.And(both_ok, st.live(0), ia.cas == ib.cas, ia.cas != 0))


def store_not_undone(progs, obs, final, st):
    # client1's unconditional store was acknowledged and nobody deleted/overwrote afterwards: it must be there
    o = obs[1][0]
    if o.kind != OK_:
        return z3.BoolVal(True)
    return z3.And(final[0], final[3] == o.rcas)


def run_item(ck, it, tier):
    name = it
    if name.startswith('random-policy: '):
        # the same programs on the store behind the eviction layer, its limit out of reach (the property is stated for the server,
        # which can be started with either variant)
        from .policy_checks import L
        from mirse.models.bytesm import vlen
        P = PROGRAMS[name[len('random-policy: '):]]
        base = P.get('constraints')

        def cons(progs, st):
            return (base(progs, st) if base else []) + [z3.UGE(L, BV(1 << 34)), z3.ULT(L, 1 << 40),
                                                        st.usage == z3.If(st.present[0], BV(24) + vlen(st.val[0]), BV(0))] + \
                   [z3.ULE(vlen(inp.val), 1 << 20) for p in progs for _, inp in p] + [z3.ULE(vlen(st.val[0]), 1 << 20)]
        ck.E.loop_bound = 8
        explore_program(ck, P['names'], constraints=cons, allow_stale=P.get('stale', False), extra_obligations=P.get('extra'),
                        policy='random', memory_limit=L)
        return
    P = PROGRAMS[name]
    explore_program(ck, P['names'], constraints=P.get('constraints'), allow_stale=P.get('stale', False), extra_obligations=P.get('extra'))


PROGRAMS = {
    'get||set(expired predecessor allowed)': dict(names=[['get'], ['set']], constraints=cas0([(1, 0)]), stale=True,
                                                  extra=[('an acknowledged store is not undone by a concurrent retrieval', store_not_undone)]),
    'get||cas-set': dict(names=[['get'], ['set']]),
    'set||set': dict(names=[['set'], ['set']], constraints=cas0([(0, 0), (1, 0)]), stale=True),
    'cas-set||cas-set': dict(names=[['set'], ['set']], extra=[('of two CAS-stores with the same CAS at most one succeeds', same_cas_at_most_one)]),
    'set||delete': dict(names=[['set'], ['delete']], constraints=cas0([(0, 0)])),
    'get||delete': dict(names=[['get'], ['delete']]),
    'get,get||set': dict(names=[['get', 'get'], ['set']], constraints=cas0([(1, 0)]), stale=True),
    'set,get||delete': dict(names=[['set', 'get'], ['delete']], constraints=cas0([(0, 0)])),
    'get||set||delete': dict(names=[['get'], ['set'], ['delete']], constraints=cas0([(1, 0)])),
    'get||set||get(expired)': dict(names=[['get'], ['set'], ['get']], constraints=cas0([(1, 0)]), stale=True),
    'cas-set||cas-set||get': dict(names=[['set'], ['set'], ['get']]),
    'set,set||get,delete': dict(names=[['set', 'set'], ['get', 'delete']], constraints=cas0([(0, 0), (0, 1)])),
}
QUICK = ['get||set(expired predecessor allowed)', 'get||cas-set', 'set||set', 'cas-set||cas-set', 'set||delete', 'get||delete', 'get,get||set',
         'random-policy: get||set(expired predecessor allowed)', 'random-policy: cas-set||cas-set', 'random-policy: set||delete', 'random-policy: get||delete']


def run(tier, seed, replay_path=None):
    ck = Check('C03', tier, seed)
    if replay_path:
        return generic_replay(ck, replay_path)
    ck.engine()
    items = QUICK if tier == 'quick' else list(PROGRAMS) + ['random-policy: ' + n for n in PROGRAMS if n.count('||') == 1]
    ck.bounds.update({'programs': items, 'granularity': 'calls into DashMap / atomics (guards keep the shard lock until dropped)',
                      'initial state': 'absent / live / expired-uncollected (where the commands have a contract for it), all fields symbolic',
                      'clock': 'constant during the concurrent episode'})
    ck.assumptions += ['DashMap per-call atomicity; sequential consistency (Ordering::Release effects not modelled)',
                       'CAS values compared as tokens: a successful mutation\'s new CAS is the one it was acknowledged with',
                       'a CAS-carrying store or a delete meeting an expired-but-uncollected item has no contract (excluded from the initial states)']
    ck.fork_map(items, lambda c, it: run_item(c, it, tier))
    return ck.finish()


if __name__ == '__main__':
    main(run)

"""C07 - counters: incr/decr arithmetic, creation and error rules."""
from .common import *
from .store_checks import run_store_checks


def run(tier, seed, replay_path=None):
    ck = Check('C07', tier, seed)
    if replay_path:
        return generic_replay(ck, replay_path)
    ck.engine()
    run_store_checks(ck, ['increment', 'decrement'], {'kind', 'value', 'flags', 'vis', 'result', 'frame', 'panic'}, K=2, tier=tier)
    from .wire_rt import wire_roundtrip
    wire_roundtrip(ck, tier, ('counter',))
    return ck.finish()


if __name__ == '__main__':
    main(run)

"""C17 - connection limit is enforced and slots are always returned.

Per-connection accounting, decided on the real code: the spawned connection task (`async move { client.handle().await }`,
the async block of MemcacheTcpServer::run) is executed over the socket model for every way a connection can end - client
close, quit, quitq, disconnect in the middle of a request, reset, protocol error, oversized item, idle timeout, write error -
at every byte offset (symbolic cut) and every segmentation (symbolic read sizes).  Asserted on every path: the task terminates,
`Drop for Client` runs and returns exactly one permit (the semaphore counter ends at initial + 1, one add_permits event),
including on panic paths (cleanup edges are followed: unwinding is executed).  The accept side (one permit taken and forgotten
per accepted connection, before the spawn) is checked by runtime_checks on one iteration of the accept loop.
Sequences of lifecycles follow by induction on the permit counter; tokio's Semaphore is trusted to be a counter.
"""
import z3
from .common import *
from . import conn_checks as CC
from .C12 import MENU
from .world import St
from .sock_common import limit

permits0 = z3.BitVec('permits0', 64)
BIG = 16


def explore_item(ck, it, tier):
    ops, end, fault, wfail = it
    E = ck.E
    E.unwind = True
    st = St(1)
    R = len(ops) + 2

    def h(E):
        E.assume(z3.ULT(permits0, 1 << 32))
        if BIG in ops:
            E.assume(limit == 1024)
        return CC.run_lifecycle(E, st, list(ops), end, fault, R, wfail=wfail, spawned=True, permits=permits0)
    res = ck.explore(h)
    for p in res:
        if p.status not in ('ok', 'panic'):
            continue
        x = p.out
        label = f"{[MENU[k][0] for k in ops]} fault={fault} peer={end} write_fail={wfail}"
        if p.status == 'panic':
            # the task died by panic: the Drop must still have run during unwinding
            nadd = sum(1 for e in p.events if e[0] == 'sem.add_permits')
            ck.obligation('slot returned exactly once (panic path)', p.pc, z3.BoolVal(nadd == 1), {}, None, [])
            ck.cover('panic path unwound', True)
            continue
        nadd = sum(1 for e in x.events if e[0] == 'sem.add_permits')
        on_term = None
        if fault == 'partial-big' and end == 'silent':
            def on_term(m, where):
                # connection limit 1: A sends the header of an oversized set and 100 bytes of its body, then nothing; after the idle
                # timeout (1 s) its slot must be free again: B is served
                from .wire import frame
                import struct
                big = struct.pack('>BBHBBHIIQ', 0x80, 0x01, 1, 8, 0, 0, 2000, 1, 0) + b'\0' * 8 + b'k' + b'v' * 91
                noop = frame(0x0a, opaque=9).hex()
                sc = {'kind': 'socket', 'item_limit': 1024, 'timeout_secs': 1, 'connection_limit': 1,
                      'conns': [{'chunks': [big.hex()], 'pause_ms': 50, 'read_ms': 2500, 'end': 'hold'},
                                {'chunks': [noop], 'pause_ms': 40, 'read_ms': 1000, 'end': 'hold'}]}
                out = ck.replay([sc])[0]
                served = len(out['conns'][1].get('received', '')) >= 48
                desc = f"connection limit 1: A sends an oversized set header + 100 body bytes and goes silent; 2.5 s later (idle timeout 1 s) B's noop is answered: {served}"
                return (None if served else True), desc, sc
        ck.obligation('the connection task terminates', p.pc, z3.BoolVal(x.state == 'ready'), {}, on_term, [])
        ck.obligation('slot returned exactly once', p.pc, z3.And(z3.BoolVal(nadd == 1), x.permits == permits0 + 1), {}, None, [])
        ck.cover('ending: ' + ('quit' if 6 in ops else 'quitq' if 7 in ops else 'oversized' if BIG in ops else f'{fault or "clean"}/{end}') + ('/write error' if wfail else ''), True)
        if any(e[0] == 'timeout' for e in x.events):
            ck.cover('ending: idle timeout fired', True)
        if any(e[0] == 'write' and e[1] == 'fail' for e in x.events):
            ck.cover('ending: write failed', True)
        if len(ck.samples) < 8:
            ck.sample({'lifecycle': label, 'add_permits_events': nadd, 'state': x.state})


def native_slots(ck):
    """translator validation over loopback: with connection limit 1, after each kind of ending a fresh connection is served"""
    from .wire import frame
    noop = frame(0x0a, opaque=1)
    endings = [([noop.hex()], 'close'), ([frame(0x07).hex()], 'hold'), ([frame(0x17).hex()], 'hold'), ([noop[:10].hex()], 'close'),
               ([(b'\x00' + noop[1:]).hex()], 'hold'), ([frame(0x01, b'k', b'\0' * 8, b'v' * 1100).hex()], 'close')]
    scs = []
    for chunks, end in endings:
        scs.append({'kind': 'socket', 'item_limit': 1024, 'timeout_secs': 1, 'connection_limit': 1,
                    'conns': [{'chunks': chunks, 'pause_ms': 40, 'read_ms': 250, 'end': end if end == 'close' else 'close'},
                              {'chunks': [noop.hex()], 'pause_ms': 40, 'read_ms': 400, 'end': 'close'},
                              {'chunks': [noop.hex()], 'pause_ms': 40, 'read_ms': 400, 'end': 'close'}]})
    for sc, o in zip(scs, ck.replay(scs)):
        if all(len(c.get('received', '')) >= 48 for c in o['conns'][1:]):
            ck.replays_ok += 1
        else:
            ck.replays_bad += 1
            ck.inconclusive.append(f'native: with connection limit 1 a later connection was not served after {sc["conns"][0]}: {o}')


def run(tier, seed, replay_path=None):
    ck = Check('C17', tier, seed)
    if replay_path:
        return generic_replay(ck, replay_path)
    ck.engine()
    ck.bounds.update({'lifecycle': 'one connection: 0..2 complete requests then an ending; cut offset and read sizes symbolic',
                      'permits': 'initial semaphore value symbolic (< 2^32)', 'reads': '<= requests + 2'})
    ck.assumptions += ['tokio::sync::Semaphore is a counter; a finished task\'s future is dropped (tokio)', 'socket model of mirse/models/tokio_io.py',
                       'sequences of lifecycles: induction on the permit counter']
    items = []
    for ops in ([], [2], [0, 2]) if tier != 'quick' else ([], [2]):
        for end, fault in (('eof', None), ('eof', 'partial'), ('error', 'partial'), ('silent', 'partial'), ('eof', 'corrupt'), ('silent', None),
                           ('silent', 'partial-big'), ('eof', 'partial-big')):
            items.append((tuple(ops), end, fault, False))
    items += [((6,), 'eof', None, False), ((2, 6), 'eof', None, False), ((7,), 'eof', None, False), ((2, 7), 'silent', None, False),
              ((BIG,), 'eof', None, False), ((BIG, 4), 'silent', None, False), ((2,), 'eof', None, True), ((0, 6), 'eof', None, True)]
    ck.fork_map(items, lambda c, it: explore_item(c, it, tier))
    from . import runtime_checks
    runtime_checks.run_accept_loop(ck, tier)
    r, desc, sc = runtime_checks.native_accept(ck)
    if r is None:
        ck.replays_ok += 1
    else:
        ck.replays_bad += 1
        ck.inconclusive.append('native accept-side run disagrees with the engine (which proved the limit): ' + desc)
    native_slots(ck)
    for need in ('accept loop: some connection waits', 'accept loop: all served', 'ending: quit', 'ending: quitq', 'ending: oversized', 'ending: clean/eof', 'ending: partial/eof', 'ending: partial/error',
                 'ending: corrupt/eof', 'ending: idle timeout fired', 'ending: write failed'):
        ck.covers.setdefault(need, False)
    return ck.finish()


if __name__ == '__main__':
    main(run)

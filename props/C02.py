"""C02 - CAS guards against lost updates.

(1) one-step refinement from an arbitrary well-formed state: success iff CAS equal, failures leave the item untouched, the
    acknowledged CAS is the stored CAS, tokens strictly increase within a lifetime, the counter stays ahead of every token;
(2) bounded model checking of histories from the empty store: no successful mutation hands out a CAS the item has already
    carried during its current lifetime (lifetimes begun by a non-zero-CAS store on an absent key excluded, as the property says).
"""
from .common import *
from .store_checks import run_store_checks
from .store_common import CMDS, CMD_ID
from . import bmc

MUT = ['set', 'add', 'replace', 'append', 'prepend', 'increment', 'decrement']


def bmc_uniqueness(ck, tier):
    k = 3 if tier == 'quick' else 5
    sysm = bmc.System(ck, 1, CMDS)
    tr, cs = sysm.unroll(k)
    ck.bounds['bmc'] = f'histories of {k} commands on 1 key from the empty store, all arguments and clock advances symbolic'

    def mut_ok(t):
        return z3.And(z3.Or([tr.cmd[t] == CMD_ID[c] for c in MUT]), tr.key[t] == 0, tr.rkind[t] == 0)
    alts = []
    for s in range(k):
        for b in range(s + 1, k):
            life = [z3.Not(tr.S[s].live(0)), mut_ok(s), tr.I[s].cas == 0]
            life += [tr.S[u].live(0) for u in range(s + 1, b + 1)]
            for a in range(s, b):
                alts.append(z3.And(life + [mut_ok(a), mut_ok(b), tr.rcas[a] == tr.rcas[b]]))
    small = [z3.ULE(tr.S[0].now, 100)] + [z3.ULE(vlen_(tr.I[t].val), 8) for t in range(k)]

    def on_w(m, where):
        rep, desc, sc, out = sysm.replay(m, tr)
        return rep, desc, sc
    ck.cover('bmc: a CAS store succeeded after an unconditional store',
             cs + [tr.cmd[0] == CMD_ID['set'], tr.rkind[0] == 0, tr.cmd[1] == CMD_ID['set'], tr.I[1].cas != 0, tr.rkind[1] == 0])
    ck.obligation(f'bmc-k{k}:token-never-reissued-within-a-lifetime', cs, z3.Not(z3.Or(alts)), {}, on_w, small)


def bmc_nonzero(ck, tier, prop='C02'):
    """along every history from the empty store (request CAS values unrestricted, so the counter may be driven anywhere):
    no acknowledged mutation and no retrieval reports the reserved CAS 0"""
    k = 3 if tier == 'quick' else 4
    cmds = ['set', 'get', 'increment'] if tier == 'quick' else ['set', 'get', 'add', 'append', 'increment', 'delete']
    sysm = bmc.System(ck, 1, cmds)
    tr, cs = sysm.unroll(k, tag='~z')
    zero = []
    for t in range(k):
        zero.append(z3.And(z3.Or([tr.cmd[t] == CMD_ID[c] for c in MUT if c in cmds] + [tr.cmd[t] == CMD_ID['get']]), tr.rkind[t] == 0, tr.rcas[t] == 0))
    small = [z3.ULE(tr.S[0].now, 100)] + [z3.ULE(vlen_(tr.I[t].val), 8) for t in range(k)]

    def on_w(m, where):
        rep, desc, sc, out = sysm.replay(m, tr)
        if out is None:
            return None, desc, sc
        from .wire import parse_response
        z = False
        for c in out['steps'][:k]:
            if c.get('response'):
                r = parse_response(bytes.fromhex(c['response']))
                z = z or (r['status'] == 0 and r['cas'] == 0 and r['opcode'] not in (0x04, 0x14, 0x08, 0x18))
        return (True if z else None), desc + ' | a successful response carries CAS 0', sc
    ck.bounds['bmc-nonzero'] = f'histories of {k} commands from {cmds} on 1 key from the empty store, request CAS any u64'
    ck.obligation(f'bmc-k{k}:no-response-carries-the-reserved-cas-0', cs, z3.Not(z3.Or(zero)), {}, on_w, small)


def bmc_reissue_two_keys(ck, tier):
    """token uniqueness with a second key through which the shared counter can be driven (client-chosen CAS on an absent key)"""
    k = 5
    sysm = bmc.System(ck, 2, ['set'])
    tr, cs = sysm.unroll(k, tag='~r')

    def mut_ok(t):
        return z3.And(tr.key[t] == 0, tr.rkind[t] == 0)
    alts = []
    for s in range(k):
        for b in range(s + 1, k):
            life = [z3.Not(tr.S[s].live(0)), mut_ok(s), tr.I[s].cas == 0]
            life += [tr.S[u].live(0) for u in range(s + 1, b + 1)]
            for a in range(s, b):
                alts.append(z3.And(life + [mut_ok(a), mut_ok(b), tr.rcas[a] == tr.rcas[b]]))
    small = [z3.ULE(tr.S[0].now, 100)] + [z3.ULE(vlen_(tr.I[t].val), 8) for t in range(k)]

    def on_w(m, where):
        rep, desc, sc, out = sysm.replay(m, tr)
        return rep, desc, sc
    ck.bounds['bmc-two-keys'] = f'histories of {k} set commands (any CAS) on 2 keys from the empty store'
    ck.obligation(f'bmc-k{k}:token-never-reissued-within-a-lifetime (2 keys, shared counter)', cs, z3.Not(z3.Or(alts)), {}, on_w, small)


def vlen_(v):
    from mirse.models.bytesm import vlen
    return vlen(v)


def run(tier, seed, replay_path=None):
    ck = Check('C02', tier, seed)
    if replay_path:
        return generic_replay(ck, replay_path)
    ck.engine()
    run_store_checks(ck, CMDS, {'kind', 'cas', 'cas-unique', 'invariant', 'vis', 'value', 'panic'}, K=2, tier=tier)
    bmc_uniqueness(ck, tier)
    bmc_nonzero(ck, tier)
    bmc_reissue_two_keys(ck, tier)
    # the same CAS rules for every mutating opcode as it arrives on the wire (quiet ones included): outcome class per opcode
    from .wire_rt import wire_roundtrip
    wire_roundtrip(ck, tier, ('store', 'concat', 'counter', 'delete'))
    return ck.finish()


if __name__ == '__main__':
    main(run)

//! Native replay driver: executes JSON scenarios produced by the symbolic checks against the real
//! memcrs code (built from the snapshot of /repo) and prints what happened as JSON.
use bytes::{Bytes, BytesMut};
use memcrs::cache::cache::Cache;
use memcrs::memcache::random_policy::RandomPolicy;
use memcrs::memcache::store::MemcStore;
use memcrs::memcache_server::handler::BinaryHandler;
use memcrs::memory_store::store::MemoryStore;
use memcrs::protocol::binary_codec::{BinaryRequest, MemcacheBinaryCodec};
use memcrs::server::timer::Timer;
use serde_json::{json, Value};
use std::panic::{catch_unwind, AssertUnwindSafe};
use std::sync::atomic::{AtomicU64, Ordering};
use std::sync::Arc;
use tokio_util::codec::Decoder;

mod sched;
mod sock;

pub struct TestTimer(pub AtomicU64);
impl Timer for TestTimer {
    fn timestamp(&self) -> u64 {
        self.0.load(Ordering::SeqCst)
    }
}

pub fn unhex(s: &str) -> Vec<u8> {
    let b = s.as_bytes();
    (0..b.len() / 2)
        .map(|i| u8::from_str_radix(std::str::from_utf8(&b[2 * i..2 * i + 2]).unwrap(), 16).unwrap())
        .collect()
}

pub fn hex(b: &[u8]) -> String {
    b.iter().map(|x| format!("{:02x}", x)).collect()
}

fn panic_msg(e: Box<dyn std::any::Any + Send>) -> String {
    if let Some(s) = e.downcast_ref::<&str>() {
        s.to_string()
    } else if let Some(s) = e.downcast_ref::<String>() {
        s.clone()
    } else {
        "panic".to_string()
    }
}

fn variant_name(r: &BinaryRequest) -> String {
    let d = format!("{:?}", r);
    d.split('(').next().unwrap_or("").to_string()
}

/// decoder scenario: {"item_limit": n, "chunks": [hex, ...], "loop": bool}
fn run_decode(sc: &Value) -> Value {
    let limit = sc["item_limit"].as_u64().unwrap() as u32;
    let mut codec = MemcacheBinaryCodec::new(limit);
    let mut buf = BytesMut::with_capacity(4096);
    let mut calls = vec![];
    let looping = sc["loop"].as_bool().unwrap_or(true);
    let mut total_in = 0usize;
    'outer: for ch in sc["chunks"].as_array().unwrap() {
        let bytes = unhex(ch.as_str().unwrap());
        total_in += bytes.len();
        buf.extend_from_slice(&bytes);
        let mut rounds = 0;
        loop {
            rounds += 1;
            if rounds > 64 {
                calls.push(json!({"result": "runaway", "buffered": buf.len()}));
                break 'outer;
            }
            let before = buf.len();
            let r = catch_unwind(AssertUnwindSafe(|| codec.decode(&mut buf)));
            let after = buf.len();
            let consumed_total = total_in - after;
            match r {
                Err(e) => {
                    calls.push(json!({"result": "panic", "msg": panic_msg(e), "buffered": after, "consumed_total": consumed_total}));
                    break 'outer;
                }
                Ok(Err(e)) => {
                    calls.push(json!({"result": "err", "msg": e.to_string(), "buffered": after, "consumed_total": consumed_total}));
                    break 'outer;
                }
                Ok(Ok(None)) => {
                    calls.push(json!({"result": "none", "buffered": after, "consumed_total": consumed_total, "capacity": buf.capacity()}));
                    // a frame that decodes to "no frame" but consumed bytes: keep decoding only if progress was made
                    if !(looping && after < before && after > 0) {
                        break;
                    }
                }
                Ok(Ok(Some(req))) => {
                    calls.push(json!({"result": "some", "variant": variant_name(&req), "debug": format!("{:?}", req),
                        "buffered": after, "consumed_total": consumed_total, "capacity": buf.capacity()}));
                    if !looping {
                        break;
                    }
                }
            }
        }
    }
    json!({"calls": calls})
}

pub struct World {
    pub timer: Arc<TestTimer>,
    pub mem: Arc<MemoryStore>,
    pub policy: Option<Arc<RandomPolicy>>,
    pub store: Arc<MemcStore>,
    pub handler: BinaryHandler,
}

pub fn make_world(sc: &Value) -> World {
    let timer = Arc::new(TestTimer(AtomicU64::new(sc["clock0"].as_u64().unwrap_or(0))));
    let mem = Arc::new(MemoryStore::new(timer.clone()));
    let (cache, policy): (Arc<dyn Cache + Send + Sync>, Option<Arc<RandomPolicy>>) = match sc["policy"].as_str() {
        Some("random") => {
            let p = Arc::new(RandomPolicy::new(mem.clone(), sc["memory_limit"].as_u64().unwrap()));
            (p.clone(), Some(p))
        }
        _ => (mem.clone(), None),
    };
    let store = Arc::new(MemcStore::new(cache));
    let handler = BinaryHandler::new(store.clone());
    World { timer, mem, policy, store, handler }
}

/// handler scenario: {"policy": "none"|"random", "memory_limit": n, "item_limit": n, "clock0": t,
///   "steps": [ {"clock": t, "frame": hex} | {"set_cas_id": v} ]}
fn run_handler(sc: &Value) -> Value {
    let w = make_world(sc);
    let limit = sc["item_limit"].as_u64().unwrap_or(1 << 20) as u32;
    let mut codec = MemcacheBinaryCodec::new(limit);
    let mut out = vec![];
    for st in sc["steps"].as_array().unwrap() {
        if let Some(v) = st.get("set_cas_id") {
            w.mem.verif_set_cas_id(v.as_u64().unwrap());
            out.push(json!({"set_cas_id": v}));
            continue;
        }
        if let Some(t) = st.get("clock") {
            w.timer.0.store(t.as_u64().unwrap(), Ordering::SeqCst);
        }
        let bytes = unhex(st["frame"].as_str().unwrap());
        let mut buf = BytesMut::with_capacity(4096);
        buf.extend_from_slice(&bytes);
        let r = catch_unwind(AssertUnwindSafe(|| {
            let d = codec.decode(&mut buf);
            match d {
                Err(e) => json!({"decode": "err", "msg": e.to_string()}),
                Ok(None) => json!({"decode": "none", "left": buf.len()}),
                Ok(Some(req)) => {
                    let variant = variant_name(&req);
                    let resp = w.handler.handle_request(req);
                    match resp {
                        None => json!({"decode": "some", "variant": variant, "left": buf.len(), "response": Value::Null}),
                        Some(resp) => {
                            let msg = codec.encode_message(&resp);
                            json!({"decode": "some", "variant": variant, "left": buf.len(), "response": hex(&msg.verif_bytes()[..])})
                        }
                    }
                }
            }
        }));
        let mut v = match r {
            Ok(v) => v,
            Err(e) => {
                // a panicking connection task dies; its codec state is gone with it
                codec = MemcacheBinaryCodec::new(limit);
                json!({"panic": panic_msg(e)})
            }
        };
        if let Some(p) = &w.policy {
            v["usage"] = json!(p.verif_memory_usage());
        }
        v["cas_id"] = json!(w.mem.verif_cas_id());
        v["len"] = json!(w.mem.len());
        out.push(v);
    }
    json!({"steps": out})
}

/// the real SystemTimer::run on a current-thread runtime whose only thread is blocked for `stall_ms` after half a second;
/// at `observe_ms` the clock is compared with the real time that has passed
fn run_timer(sc: &Value) -> Value {
    use memcrs::server::timer::{SystemTimer, Timer};
    let stall = sc["stall_ms"].as_u64().unwrap_or(3200);
    let observe = sc["observe_ms"].as_u64().unwrap_or(6500);
    let timer = Arc::new(SystemTimer::new());
    let t2 = timer.clone();
    let rt = tokio::runtime::Builder::new_current_thread().enable_all().build().unwrap();
    let (ts, el) = rt.block_on(async move {
        let begin = std::time::Instant::now();
        let t3 = t2.clone();
        tokio::spawn(async move { t3.run().await });
        tokio::time::sleep(std::time::Duration::from_millis(500)).await;
        std::thread::sleep(std::time::Duration::from_millis(stall));
        let rest = observe.saturating_sub(begin.elapsed().as_millis() as u64);
        tokio::time::sleep(std::time::Duration::from_millis(rest)).await;
        (t2.timestamp(), begin.elapsed().as_millis() as u64)
    });
    json!({"timestamp": ts, "elapsed_ms": el})
}

fn main() {
    // keep panic messages out of stderr noise; they are reported in the JSON
    std::panic::set_hook(Box::new(|_| {}));
    let path = std::env::args().nth(1).expect("scenario file");
    let txt = std::fs::read_to_string(&path).expect("read scenario");
    let sc: Value = serde_json::from_str(&txt).expect("scenario json");
    let scs: Vec<Value> = match sc {
        Value::Array(a) => a,
        v => vec![v],
    };
    let mut outs = vec![];
    for sc in &scs {
        let out = match sc["kind"].as_str().unwrap_or("") {
            "decode" => run_decode(sc),
            "handler" => run_handler(sc),
            "socket" => sock::run_socket(sc),
            "sched" => sched::run_sched(sc),
            "server" => sock::run_server(sc),
            "timer" => run_timer(sc),
            k => json!({"error": format!("unknown scenario kind {}", k)}),
        };
        outs.push(out);
    }
    println!("{}", serde_json::to_string(&Value::Array(outs)).unwrap());
    let _ = Bytes::new();
}

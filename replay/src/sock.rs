//! socket scenarios: an in-process MemcacheTcpServer on loopback; the client writes the given chunks one at a
//! time (pausing so that the server drains its receive queue between them) and collects what comes back.
//!
//! {"kind":"socket","item_limit":n,"connection_limit":n,"timeout_secs":n,"policy":"none"|"random","memory_limit":n,
//!  "conns":[ {"chunks":[hex,...], "pause_ms":n, "end":"close"|"hold"|"shutdown_write", "read_ms":n} , ...],
//!  "sequential": bool }
use crate::{hex, make_world, unhex};
use memcrs::cache::cache::Cache;
use memcrs::memcache_server::memc_tcp::{MemcacheServerConfig, MemcacheTcpServer};
use serde_json::{json, Value};
use std::io::{Read, Write};
use std::net::{Shutdown, TcpStream};
use std::sync::Arc;
use std::time::{Duration, Instant};

fn free_port() -> u16 {
    // ask the OS for a free port, release it, and let the server bind it (SO_REUSEADDR is set by the server)
    let l = std::net::TcpListener::bind("127.0.0.1:0").unwrap();
    l.local_addr().unwrap().port()
}

fn read_for(s: &mut TcpStream, ms: u64) -> (Vec<u8>, bool) {
    let mut out = vec![];
    let mut closed = false;
    let deadline = Instant::now() + Duration::from_millis(ms);
    let mut buf = [0u8; 65536];
    loop {
        let now = Instant::now();
        if now >= deadline {
            break;
        }
        s.set_read_timeout(Some(deadline - now)).unwrap();
        match s.read(&mut buf) {
            Ok(0) => {
                closed = true;
                break;
            }
            Ok(n) => out.extend_from_slice(&buf[..n]),
            Err(e) => {
                if e.kind() == std::io::ErrorKind::WouldBlock || e.kind() == std::io::ErrorKind::TimedOut {
                    break;
                }
                closed = true;
                break;
            }
        }
    }
    (out, closed)
}

/// connects while the process has no free file descriptor: the server's accept() fails (EMFILE) for `ms` milliseconds, then
/// the descriptors are released again.  The client socket itself is created beforehand.
fn connect_during_fd_exhaustion(addr: std::net::SocketAddr, ms: u64) -> std::io::Result<TcpStream> {
    use socket2::{Domain, Socket, Type};
    let sock = Socket::new(Domain::IPV4, Type::STREAM, None)?;
    let mut old = libc::rlimit { rlim_cur: 0, rlim_max: 0 };
    unsafe {
        libc::getrlimit(libc::RLIMIT_NOFILE, &mut old);
        let low = libc::rlimit { rlim_cur: 512.min(old.rlim_cur), rlim_max: old.rlim_max };
        libc::setrlimit(libc::RLIMIT_NOFILE, &low);
    }
    let mut hogs = vec![];
    while let Ok(f) = std::fs::File::open("/dev/null") {
        hogs.push(f);
        if hogs.len() > 100_000 {
            break;
        }
    }
    let r = sock.connect(&addr.into());
    std::thread::sleep(Duration::from_millis(ms));
    drop(hogs);
    unsafe {
        libc::setrlimit(libc::RLIMIT_NOFILE, &old);
    }
    r?;
    Ok(sock.into())
}

pub fn run_socket(sc: &Value) -> Value {
    let w = make_world(sc);
    let cache: Arc<dyn Cache + Send + Sync> = match &w.policy {
        Some(p) => p.clone(),
        None => w.mem.clone(),
    };
    let cfg = MemcacheServerConfig::new(
        sc["timeout_secs"].as_u64().unwrap_or(2) as u32,
        sc["connection_limit"].as_u64().unwrap_or(16) as u32,
        sc["item_limit"].as_u64().unwrap_or(1 << 20) as u32,
        16,
    );
    let port = free_port();
    let rt = tokio::runtime::Builder::new_multi_thread().worker_threads(2).enable_all().build().unwrap();
    let mut server = MemcacheTcpServer::new(cfg, cache);
    let addr: std::net::SocketAddr = format!("127.0.0.1:{}", port).parse().unwrap();
    rt.spawn(async move {
        let _ = server.run(addr).await;
    });
    // wait for the listener
    let mut tries = 0;
    loop {
        match TcpStream::connect(addr) {
            Ok(s) => {
                drop(s);
                break;
            }
            Err(_) => {
                tries += 1;
                if tries > 200 {
                    return json!({"error": "server did not start"});
                }
                std::thread::sleep(Duration::from_millis(10));
            }
        }
    }
    std::thread::sleep(Duration::from_millis(50));
    let conns = sc["conns"].as_array().unwrap();
    let mut results: Vec<Value> = vec![];
    let mut open: Vec<Option<TcpStream>> = vec![];
    for c in conns {
        if let Some(cl) = c["close_first"].as_array() {
            for i in cl {
                let i = i.as_u64().unwrap() as usize;
                if i < open.len() {
                    open[i] = None;
                }
            }
            std::thread::sleep(Duration::from_millis(150));
        }
        let connected = if let Some(ms) = c["fd_exhaustion_ms"].as_u64() {
            connect_during_fd_exhaustion(addr, ms)
        } else if let Some(rb) = c["rcvbuf"].as_u64() {
            // a small receive buffer, set before connecting, so that a large response soon fills the path to a client that does not read
            (|| -> std::io::Result<TcpStream> {
                let sock = socket2::Socket::new(socket2::Domain::IPV4, socket2::Type::STREAM, None)?;
                sock.set_recv_buffer_size(rb as usize)?;
                sock.connect(&addr.into())?;
                Ok(sock.into())
            })()
        } else {
            TcpStream::connect(addr)
        };
        let mut s = match connected {
            Ok(s) => s,
            Err(e) => {
                results.push(json!({"error": e.to_string()}));
                open.push(None);
                continue;
            }
        };
        s.set_nodelay(true).unwrap();
        let pause = c["pause_ms"].as_u64().unwrap_or(120);
        let mut werr: Option<String> = None;
        let chunks = c["chunks"].as_array().unwrap();
        let fin_now = c["fin_immediately"].as_bool().unwrap_or(false);
        for (ci, ch) in chunks.iter().enumerate() {
            let b = unhex(ch.as_str().unwrap());
            if let Err(e) = s.write_all(&b) {
                werr = Some(e.to_string());
                break;
            }
            let _ = s.flush();
            if fin_now && ci + 1 == chunks.len() {
                // the FIN travels right behind the last bytes (queued before the server gets to read them)
                break;
            }
            std::thread::sleep(Duration::from_millis(pause));
        }
        match c["end"].as_str().unwrap_or("hold") {
            "shutdown_write" => {
                let _ = s.shutdown(Shutdown::Write);
            }
            _ => {}
        }
        let (got, closed) = read_for(&mut s, c["read_ms"].as_u64().unwrap_or(400));
        let mut res = json!({"received": hex(&got), "closed_by_server": closed, "write_error": werr});
        // optional second phase on the same connection: stay idle, then send more and read again
        if let Some(after) = c["then_after_ms"].as_u64() {
            std::thread::sleep(Duration::from_millis(after));
            if let Some(chs) = c["then_chunks"].as_array() {
                for ch in chs {
                    let _ = s.write_all(&unhex(ch.as_str().unwrap()));
                }
            }
            let (got2, closed2) = read_for(&mut s, c["then_read_ms"].as_u64().unwrap_or(400));
            res["later_received"] = json!(hex(&got2));
            res["later_closed"] = json!(closed2);
        }
        results.push(res);
        if c["end"].as_str().unwrap_or("hold") == "reset" {
            // abortive close: SO_LINGER 0 makes close() send RST
            let sk = socket2::Socket::from(s);
            let _ = sk.set_linger(Some(Duration::from_secs(0)));
            drop(sk);
            open.push(None);
        } else if c["end"].as_str().unwrap_or("hold") == "close" {
            drop(s);
            open.push(None);
        } else {
            open.push(Some(s));
        }
    }
    // optional second look at held connections (e.g. to see the idle timeout fire)
    if let Some(ms) = sc["final_wait_ms"].as_u64() {
        std::thread::sleep(Duration::from_millis(ms));
        for (i, o) in open.iter_mut().enumerate() {
            if let Some(s) = o {
                let (got, closed) = read_for(s, 50);
                results[i]["later_received"] = json!(hex(&got));
                results[i]["later_closed_by_server"] = json!(closed);
            }
        }
    }
    drop(open);
    rt.shutdown_timeout(Duration::from_millis(200));
    json!({"conns": results})
}

/// whole-server scenario: start the real `create_memcrs_server` with CLI-style arguments and count how many
/// simultaneously open connections get a noop answered.
/// {"kind":"server","args":[...without --port...],"conns":n}
pub fn run_server(sc: &Value) -> Value {
    let port = free_port();
    let mut args: Vec<String> = vec!["memcrsd".to_string(), "--port".to_string(), port.to_string()];
    for a in sc["args"].as_array().unwrap() {
        args.push(a.as_str().unwrap().to_string());
    }
    let cfg = match memcrs::memcache::cli::parser::parse(args) {
        Ok(c) => c,
        Err(e) => return json!({"error": format!("cannot parse args: {}", e)}),
    };
    let timer = Arc::new(memcrs::server::timer::SystemTimer::new());
    let rt = memcrs::memcache_server::runtime_builder::create_memcrs_server(cfg, timer.clone());
    let addr: std::net::SocketAddr = format!("127.0.0.1:{}", port).parse().unwrap();
    std::thread::sleep(Duration::from_millis(300));
    let n = sc["conns"].as_u64().unwrap_or(2) as usize;
    let noop: Vec<u8> = vec![0x80, 0x0a, 0, 0, 0, 0, 0, 0, 0, 0, 0, 0, 0, 0, 0, 7, 0, 0, 0, 0, 0, 0, 0, 0];
    let mut socks = vec![];
    for _ in 0..n {
        match TcpStream::connect(addr) {
            Ok(mut s) => {
                s.set_nodelay(true).unwrap();
                let _ = s.write_all(&noop);
                socks.push(s);
            }
            Err(e) => return json!({"error": format!("connect: {}", e)}),
        }
        std::thread::sleep(Duration::from_millis(60));
    }
    let mut served = 0;
    let mut per = vec![];
    for s in socks.iter_mut() {
        let (got, _closed) = read_for(s, 400);
        if got.len() >= 24 {
            served += 1;
        }
        per.push(got.len());
    }
    // optional: frames sent on one more connection, everything received within 600 ms is returned
    let mut probe = String::new();
    if let Some(frames) = sc["probe_frames"].as_array() {
        drop(socks);
        std::thread::sleep(Duration::from_millis(100));
        if let Ok(mut s) = TcpStream::connect(addr) {
            s.set_nodelay(true).unwrap();
            for f in frames {
                let _ = s.write_all(&unhex(f.as_str().unwrap()));
            }
            let (got, _closed) = read_for(&mut s, 600);
            probe = hex(&got);
        }
    }
    std::mem::forget(rt);
    json!({"served": served, "answered_bytes": per, "probe_received": probe})
}

//! socket scenarios: an in-process MemcacheTcpServer on loopback, chunks written one at a time.
use serde_json::{json, Value};

pub fn run_socket(_sc: &Value) -> Value {
    json!({"error": "socket scenarios not built yet"})
}

//! schedule scenarios: real threads forced through a prescribed order of store-level steps.
use serde_json::{json, Value};

pub fn run_sched(_sc: &Value) -> Value {
    json!({"error": "schedule scenarios not built yet"})
}

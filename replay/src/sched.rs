//! schedule scenarios: real threads execute real commands (decode -> handle_request -> encode) against one shared store
//! and are forced through a prescribed order of the store's steps on shared state, using the cfg(memcrs_verif)
//! `verif_hooks::yield_point` callback.
//!
//! {"kind":"sched","policy":..,"memory_limit":..,"item_limit":..,
//!  "setup":[handler steps], "clock": t,
//!  "threads":[[frame hex,...],...], "schedule":[[tid,"op"],...], "probe":[frame hex,...]}
use crate::{hex, make_world, panic_msg, unhex};
use bytes::BytesMut;
use memcrs::protocol::binary_codec::MemcacheBinaryCodec;
use serde_json::{json, Value};
use std::cell::Cell;
use std::panic::{catch_unwind, AssertUnwindSafe};
use std::sync::atomic::Ordering;
use std::sync::{Arc, Condvar, Mutex};
use std::time::Duration;
use tokio_util::codec::Decoder;

thread_local! {
    static TID: Cell<usize> = Cell::new(usize::MAX);
}

struct Sched {
    order: Vec<(usize, String)>,
    turn: usize,
    granted: Option<usize>,
    mismatch: Vec<String>,
    stuck: bool,
    log: Vec<(usize, String)>,
}

fn run_frame(w: &crate::World, codec: &mut MemcacheBinaryCodec, bytes: &[u8]) -> Value {
    let mut buf = BytesMut::with_capacity(4096);
    buf.extend_from_slice(bytes);
    let r = catch_unwind(AssertUnwindSafe(|| match codec.decode(&mut buf) {
        Err(e) => json!({"decode": "err", "msg": e.to_string()}),
        Ok(None) => json!({"decode": "none"}),
        Ok(Some(req)) => match w.handler.handle_request(req) {
            None => json!({"decode": "some", "response": Value::Null}),
            Some(resp) => {
                let msg = codec.encode_message(&resp);
                json!({"decode": "some", "response": hex(&msg.verif_bytes()[..])})
            }
        },
    }));
    match r {
        Ok(v) => v,
        Err(e) => json!({"panic": panic_msg(e)}),
    }
}

pub fn run_sched(sc: &Value) -> Value {
    let w = Arc::new(make_world(sc));
    let limit = sc["item_limit"].as_u64().unwrap_or(1 << 20) as u32;
    // set-up (unscheduled)
    let mut codec = MemcacheBinaryCodec::new(limit);
    if let Some(steps) = sc["setup"].as_array() {
        for st in steps {
            if let Some(v) = st.get("set_cas_id") {
                w.mem.verif_set_cas_id(v.as_u64().unwrap());
                continue;
            }
            if let Some(t) = st.get("clock") {
                w.timer.0.store(t.as_u64().unwrap(), Ordering::SeqCst);
            }
            if let Some(f) = st.get("frame") {
                run_frame(&w, &mut codec, &unhex(f.as_str().unwrap()));
            }
        }
    }
    if let Some(t) = sc["clock"].as_u64() {
        w.timer.0.store(t, Ordering::SeqCst);
    }
    let order: Vec<(usize, String)> = sc["schedule"]
        .as_array()
        .unwrap()
        .iter()
        .map(|x| (x[0].as_u64().unwrap() as usize, x[1].as_str().unwrap().to_string()))
        .collect();
    let state = Arc::new((Mutex::new(Sched { order, turn: 0, granted: None, mismatch: vec![], stuck: false, log: vec![] }), Condvar::new()));
    {
        let st = state.clone();
        memcrs::verif_hooks::set_hook(Some(Box::new(move |name: &'static str| {
            let tid = TID.with(|t| t.get());
            if tid == usize::MAX {
                return;
            }
            let (m, cv) = &*st;
            let mut s = m.lock().unwrap();
            if s.granted == Some(tid) {
                s.granted = None;
                s.turn += 1;
                cv.notify_all();
            }
            loop {
                if s.stuck || s.turn >= s.order.len() {
                    break;
                }
                if s.granted.is_none() && s.order[s.turn].0 == tid {
                    if s.order[s.turn].1 != name {
                        let msg = format!("step {}: thread {} is at {} but the schedule says {}", s.turn, tid, name, s.order[s.turn].1);
                        s.mismatch.push(msg);
                    }
                    s.granted = Some(tid);
                    s.log.push((tid, name.to_string()));
                    break;
                }
                let (g, to) = cv.wait_timeout(s, Duration::from_millis(1500)).unwrap();
                s = g;
                if to.timed_out() {
                    s.stuck = true;
                    cv.notify_all();
                    break;
                }
            }
        })));
    }
    let threads = sc["threads"].as_array().unwrap();
    let mut handles = vec![];
    // stress mode: no forced schedule; every thread repeats its commands `stress_rounds` times, free running (for loops over
    // atomics that have no yield point inside: the race is then hit by sheer repetition). Before each of its rounds thread 0 runs
    // the `rearm` frames (e.g. a delete that makes the key absent again); a non-zero request CAS is advanced by `cas_step` per round.
    let rounds = sc["stress_rounds"].as_u64().unwrap_or(0);
    if rounds > 0 {
        memcrs::verif_hooks::set_hook(None);
    }
    let rearm: Vec<Vec<u8>> = sc["rearm"].as_array().map(|a| a.iter().map(|f| unhex(f.as_str().unwrap())).collect()).unwrap_or_default();
    let cas_step = sc["cas_step"].as_u64().unwrap_or(0);
    for (tid, frames) in threads.iter().enumerate() {
        let frames: Vec<Vec<u8>> = frames.as_array().unwrap().iter().map(|f| unhex(f.as_str().unwrap())).collect();
        let w = w.clone();
        let st = state.clone();
        let rearm = rearm.clone();
        handles.push(std::thread::spawn(move || {
            TID.with(|t| t.set(if rounds > 0 { usize::MAX } else { tid }));
            let mut codec = MemcacheBinaryCodec::new(limit);
            let mut out = vec![];
            for r in 1..rounds {
                if tid == 0 {
                    for f in &rearm {
                        run_frame(&w, &mut codec, f);
                    }
                }
                for f in &frames {
                    let mut f = f.clone();
                    if f.len() >= 24 && f[16..24].iter().any(|b| *b != 0) && cas_step > 0 {
                        let c = u64::from_be_bytes(f[16..24].try_into().unwrap()).wrapping_add(r.wrapping_mul(cas_step)) & ((1u64 << 62) - 1);
                        f[16..24].copy_from_slice(&c.max(1).to_be_bytes());
                    }
                    run_frame(&w, &mut codec, &f);
                }
            }
            for f in frames {
                out.push(run_frame(&w, &mut codec, &f));
            }
            let (m, cv) = &*st;
            let mut s = m.lock().unwrap();
            if s.granted == Some(tid) {
                s.granted = None;
                s.turn += 1;
            }
            cv.notify_all();
            out
        }));
    }
    // watchdog: a command that never returns (livelock) must not hang the driver
    let deadline = std::time::Instant::now() + Duration::from_millis(sc["watchdog_ms"].as_u64().unwrap_or(4000));
    let mut hung = vec![];
    loop {
        if handles.iter().all(|h| h.is_finished()) {
            break;
        }
        if std::time::Instant::now() > deadline {
            for (i, h) in handles.iter().enumerate() {
                if !h.is_finished() {
                    hung.push(i);
                }
            }
            break;
        }
        std::thread::sleep(Duration::from_millis(10));
    }
    if !hung.is_empty() {
        let (m, _) = &*state;
        let s = m.lock().unwrap();
        let v = json!({"hung": hung, "threads": [], "probe": [], "schedule_mismatch": s.mismatch, "stuck": s.stuck,
            "steps_done": s.turn, "steps_planned": s.order.len()});
        // spinning threads cannot be joined: print what we have and leave the process
        println!("{}", serde_json::to_string(&Value::Array(vec![v])).unwrap());
        std::process::exit(0);
    }
    let mut results = vec![];
    for h in handles {
        match h.join() {
            Ok(v) => results.push(json!(v)),
            Err(e) => results.push(json!([{"panic": panic_msg(e)}])),
        }
    }
    memcrs::verif_hooks::set_hook(None);
    let (m, _) = &*state;
    let s = m.lock().unwrap();
    let mut probes = vec![];
    if let Some(ps) = sc["probe"].as_array() {
        for p in ps {
            probes.push(run_frame(&w, &mut codec, &unhex(p.as_str().unwrap())));
        }
    }
    let mut v = json!({"threads": results, "probe": probes, "schedule_mismatch": s.mismatch, "stuck": s.stuck,
        "steps_done": s.turn, "steps_planned": s.order.len(),
        "followed": s.log.iter().map(|(t, n)| json!([t, n])).collect::<Vec<_>>()});
    if let Some(p) = &w.policy {
        v["usage"] = json!(p.verif_memory_usage());
    }
    v["len"] = json!(memcrs::cache::cache::Cache::len(&*w.mem));
    v
}

#!/bin/bash
# runs every reverse patch against the checks expected to catch it; appends to seeded/RESULTS.md
cd /verif
out=seeded/RESULTS.md
mkdir -p seeded
echo "## selftest matrix $(date -u +%FT%TZ)" >> $out
run() { p=$1; shift; echo "### $p -> $*" >> $out; selftest/run.sh selftest/$p "$@" 2>&1 | grep "^== " >> $out; }
run unfix-C09-carve-body.diff C09
run unfix-C12-unsupported-opcode.diff C09 C12 C10
run unfix-C07-incr-overflow.diff C07 C10
run unfix-C07-incr-flags.diff C07 C01 C11
run unfix-C02-token-reuse.diff C02
run unfix-C10-cas-overflow.diff C02 C10
run unfix-C05-delayed-flush.diff C05 C08
run unfix-C13-skip-arithmetic.diff C13 C09 C10
run unfix-C03-expiry-race.diff C03
run unfix-C20-per-thread-semaphore.diff C20

#!/bin/bash
# usage: selftest/run.sh <patch.diff> <property id>...   -- applies the patch to /repo, runs the checks, reverts
set -u
patch="$1"; shift
cd /verif
git -C /repo apply "$(realpath "$patch")" || { echo "patch does not apply"; exit 3; }
trap 'git -C /repo checkout -- . ' EXIT
for id in "$@"; do
  ./check "$id" --tier "${TIER:-quick}" > /tmp/selftest-$id.log 2>&1
  rc=$?
  echo "== $id rc=$rc $(grep -c '^VIOLATION' /tmp/selftest-$id.log) violation lines; $(grep -c '^INCONCLUSIVE' /tmp/selftest-$id.log) inconclusive"
  grep -A1 '^VIOLATION' /tmp/selftest-$id.log | head -6
  grep '^INCONCLUSIVE' /tmp/selftest-$id.log | head -3
done

#!/usr/bin/env python3
"""Regenerates MANIFEST.json from the table below (kept as code so that it cannot drift out of schema)."""
import json, os
HERE = os.path.dirname(os.path.abspath(__file__))
TECH = 'symbolic execution of rustc MIR (MIRSE) + z3 SMT queries per path; witnesses replayed natively'
NOTE_COMMON = ('Trusted: rustc MIR lowering (nightly dump vs stable build, cross-checked by native replay of path witnesses), '
               'z3, and the library models of DESIGN.md 3.3 (bytes, dashmap, atomics, tokio leaf futures, log/fmt as no-ops). '
               'Bounded: see evidence.bounds; everything outside the bounds is outside the claim.')
CHECKS = {
    'C09': dict(text='Bounded symbolic model checking of the real decode()/read_frame()/skip_bytes() MIR: for one fully symbolic frame '
                     '(every header field, stream length and split point free) the solver shows exact consumption, no silent stall, '
                     'segmentation independence and parser reset on every path; parser reset extends the single-frame result to pipelines.',
                design='5 C09', note=NOTE_COMMON + ' Decoder level: 1 symbolic frame, 2 deliveries; socket level: bounded reads.'),
}
NA = {
}
ALL = ['C%02d' % i for i in range(1, 21)]


def main():
    checks = []
    for pid in ALL:
        if pid not in CHECKS:
            continue
        c = CHECKS[pid]
        checks.append({
            'property_id': pid,
            'quick_cmd': f'./check {pid} --tier quick',
            'thorough_cmd': f'./check {pid} --tier thorough',
            'evidence_file': f'/verif/evidence/{pid}.json',
            'replay_cmd_template': f'./check {pid} --replay {{path}}',
            'engine': 'mirse',
            'level_claimed': {'category': 'model_checking', 'text': c['text'], 'design_ref': 'DESIGN.md section ' + c['design']},
            'level_note': c['note'],
            'technique': TECH,
        })
    na = [{'property_id': p, 'reason': NA.get(p, 'check not built yet in this session (work in progress; see DESIGN.md section 5 for the planned encoding)')}
          for p in ALL if p not in CHECKS]
    m = {
        'version': 1,
        'setup_cmd': 'python3-vt -m mirse.prepare',
        'hooks': {
            'guard': '--cfg memcrs_verif',
            'enable': 'RUSTFLAGS="--cfg memcrs_verif" (set by mirse/prepare.py for the MIR dump and the replay driver build)',
            'baseline_off_cmd': 'cd /repo && cargo test --workspace --no-fail-fast --offline',
            'source_commits': ['6e0d0f8'],
            'add_only': True,
        },
        'engines': [{'name': 'mirse', 'path': '/verif/mirse', 'serves_properties': sorted(CHECKS),
                     'kind_free_text': 'symbolic executor over rustc -Zunpretty=mir text (Python) with z3 5.1 deciding every branch and '
                                       'every property query; native replay driver /verif/replay (Rust, path dependency on a snapshot of /repo)'}],
        'checks': checks,
        'not_applicable': na,
        'notes': 'All checks share one engine; ./check <id> re-snapshots /repo, re-dumps the MIR when the sources changed and rebuilds the replay driver.',
    }
    with open(os.path.join(HERE, 'MANIFEST.json'), 'w') as f:
        json.dump(m, f, indent=1)


if __name__ == '__main__':
    main()

#!/usr/bin/env python3
"""Regenerates MANIFEST.json from the table below (kept as code so that it cannot drift out of schema)."""
import json, os
HERE = os.path.dirname(os.path.abspath(__file__))
TECH = 'symbolic execution of rustc MIR (MIRSE) + z3 SMT queries per path; witnesses replayed natively'
NOTE_COMMON = ('Trusted: rustc MIR lowering (nightly dump vs stable build, cross-checked by native replay of path witnesses), '
               'z3, and the library models of DESIGN.md 3.3 (bytes, dashmap, atomics, tokio leaf futures, log/fmt as no-ops). '
               'Bounded: see evidence.bounds; everything outside the bounds is outside the claim.')
CHECKS = {
    'C09': dict(text='Bounded symbolic model checking of the real decode()/read_frame()/skip_bytes() MIR: for one fully symbolic frame '
                     '(every header field, stream length and split point free) the solver shows exact consumption, no silent stall, '
                     'segmentation independence and parser reset on every path; parser reset extends the single-frame result to pipelines; '
                     'the real connection loop (Client::handle, BufWriter model) on 2-request pipelines under symbolic read sizes answers every loud request.',
                design='5 C09', note=NOTE_COMMON + ' Decoder level: 1 symbolic frame, 2 deliveries; socket level: bounded reads.'),
}
STORE_NOTE = NOTE_COMMON + (' Store level: one command from an arbitrary well-formed state vector (2 keys) on both store variants (plain MemoryStore, and '
              'behind RandomPolicy with the limit out of reach), uninterpreted byte strings, '
              'clock constant within a command; histories by induction over the checked state invariant, plus solver-side BMC where stated.')
CHECKS.update({
    'C01': dict(text='One-step refinement of every MemcStore command (real MIR paths) against a reference model from an arbitrary well-formed '
                     'state: values/flags returned exactly, frame condition on the other key, visibility only changed as specified, stored CAS non-zero; '
                     'wire round trip (decode -> handler -> encode) keyed on the opcode: what is stored / returned is exactly the frame\'s bytes, the store is '
                     'addressed with exactly the frame\'s key bytes, every opcode reaches its own command; in-solver BMC: no response carries the reserved CAS 0.',
                design='5 C01', note=STORE_NOTE),
    'C02': dict(text='One-step refinement (success iff CAS equal, failures leave the item untouched, acknowledged CAS = stored CAS, tokens strictly '
                     'increase within a lifetime, counter stays ahead of stored tokens) plus in-solver BMC of k-command histories from the empty store '
                     'for token re-issue within a lifetime (1 key k=3/5; 2 keys sharing the counter k=5; request CAS unrestricted) and for the reserved CAS 0; '
                     'the counter invariant (monotone, ahead of every stored token, no wrap within 2^61 commands) is checked inductive; wire round trip of every mutating opcode '
                     '(outcome class incl. key exists on a CAS mismatch, quiet opcodes silent exactly on success); history witnesses are replayed natively.',
                design='5 C02', note=STORE_NOTE),
    'C05': dict(text='One-step refinement of visibility and deadline of every key after every command for every clock value and TTL: expired items '
                     'are absent for all presence-dependent commands, no command (incl. delayed flush) moves a deadline later; TTL/flush history BMC; all schedules of '
                     'get racing get/set/add on an expired item (it stays unretrievable).',
                design='5 C05', note=STORE_NOTE + ' TTL ranges over all u32 (the statement speaks about 0..30 days).'),
    'C06': dict(text='One-step refinement of add/replace/append/prepend: status per presence, old+suffix / prefix+old as terms, flags kept, '
                     'rejected commands leave value, flags and CAS untouched; wire round trip of the append/prepend/add/replace/set opcodes incl. the quiet ones.', design='5 C06', note=STORE_NOTE),
    'C07': dict(text='One-step refinement of incr/decr: (v+d) mod 2^64, max(v-d,0), decimal text stored, flags kept, creation unless expiration is '
                     '0xffffffff, non-numeric error leaves the item unchanged, no arithmetic panic (overflow checks on); wire round trip of the four counter opcodes.',
                design='5 C07', note=STORE_NOTE + ' "decimal u64" is whatever str::parse::<u64> accepts (uninterpreted isnum/num on stored terms).'),
    'C08': dict(text='One-step refinement of delete (not found / key exists / removed, other keys untouched) and flush (immediate: nothing visible; '
                     'delay n: every deadline becomes min(old, now+n)); later stores unaffected; in-solver BMC of set/get/flush histories with clock advances, '
                     'all fields of the real MemoryStore threaded through the state vector; wire round trip of the delete/flush opcodes; all schedules of a CAS-carrying '
                     'delete racing a store or another delete, and of get racing get/set/add on an item whose (flush) deadline has passed (linearizability).', design='5 C08', note=STORE_NOTE),
})
WIRE_NOTE = NOTE_COMMON + (' Wire level: one fully symbolic request frame (all 256 opcodes, all header fields) from an arbitrary well-formed '
             'store state through the real decode -> handle_request -> encode_message; key identity delegated to the map model.')
CHECKS.update({
    'C10': dict(text='No feasible panic path (overflow checks on) in the decoder on an arbitrary stream prefix (one-shot and split delivery) nor in '
                     'decode -> handle -> encode of an arbitrary frame from an arbitrary state under both store variants; only headers passing all '
                     'validity rules reach a command handler; buffer space is reserved only for bodies within the item limit; a frame (oversized ones included) is handed out once and '
                     'the parser is back in its initial state; socket loops bounded.',
                design='5 C10', note=WIRE_NOTE + ' Stored values shorter than 2^31 bytes (stated bound). Allocation failure out of scope.'),
    'C11': dict(text='Every response rope produced by the real handlers/encoder for an arbitrary request and state, parsed back by an independent '
                     'reader: magic/opcode/opaque/data type, status table, body length = bytes that follow, extras/key/value layout per outcome '
                     'class; the Encoder twin writes the same bytes; connection level: what Client::handle writes to the socket for a get-family hit on a value of any '
                     'length <= 2 MiB is, part by part, encode_message of the responses, in order. Path witnesses are replayed natively and compared byte for byte.',
                design='5 C11', note=WIRE_NOTE),
    'C19': dict(text='Relational one-step check: the same symbolic frame executed with the loud and the quiet opcode from the same arbitrary state '
                     'gives identical post-states; quiet responses are the loud ones filtered (silent on success/miss, identical apart from the '
                     'opcode otherwise). Sequences follow by induction on state equality.',
                design='5 C19', note=WIRE_NOTE),
})
POLICY_NOTE = NOTE_COMMON + (' Random policy: 2 keys, limit any value, record size = 24 + value length, victim index arbitrary, sweep unwound keys+3 '
               'times; length arithmetic queries that z3 does not bit-blast in time are decided by cvc5 --solve-bv-as-int=sum.')
CHECKS.update({
    'C14': dict(text='One step from any state whose accounted usage is not below the stored total: after a store the stored total is at most '
                     'limit + the record just written, otherwise it has not grown; the written record survives its own sweep; the sweep terminates '
                     'within the unwinding bound; plus in-solver BMC of k-command histories from the empty store (limits down to 0), replayed natively; '
                     'concurrent form: under all schedules of 2 clients (set/delete/get incl. expired items) the accounted usage does not end below the stored total.',
                design='5 C14', note=POLICY_NOTE + ' One known finding shared with C15 (the sweep\'s reset racing another client\'s accounting).'),
    'C15': dict(text='Hook form: one step from any state with accounted usage = stored total (and fitting under the limit) keeps them equal; '
                     'behavioural form: BMC of k-command histories in which the data always fits and a live item is evicted. Five accounting defects '
                     'are known findings (role-based regions); anything outside them is a violation; the usage never falls below the stored total (BMC, no '
                     'known region) also under all schedules of two clients. Native replay reads the counter through the hook.',
                design='5 C15', note=POLICY_NOTE),
})
SOCK_NOTE = NOTE_COMMON + (' Socket level: the real Client::handle / read_frame / skip_bytes coroutines over a socket model (a read returns a non-empty '
             'prefix of what was sent, at most the spare capacity; EOF, reset or silence at the end; timeout fires only on silence); streams are '
             'concretely laid out requests with symbolic payload, cut offset and read sizes; reads per connection bounded. Witnesses are replayed over '
             'real loopback TCP against an in-process MemcacheTcpServer.')
CHECKS.update({
    'C12': dict(text='Bounded model checking of the real connection loop on pipelines of m requests from a menu of loud/quiet/unimplemented opcodes '
                     'with quit/quitq anywhere and symbolic segmentation: handle_request called exactly for the requests before the quit, once each, '
                     'in order; exactly one in-order response per loud request, at most one per quiet one; quit answered then shutdown; quitq silent '
                     'shutdown; the task always returns; an oversized request inside the stream is skipped exactly under every segmentation.', design='5 C12', note=SOCK_NOTE + ' Fresh server; quick m=2 / menu 8, thorough m=2 / menu 12 with both endings for every first request (3 requests did not finish within an hour: outside the bound).'),
    'C13': dict(text='Decoder: too large <=> body_length > limit for every valid header, header-only consumption; handler: 0x03 echo, nothing '
                     'changed; socket: read_frame + skip_bytes on [oversized frame][followers] with every read size symbolic return ItemTooLarge and '
                     'leave the next unread position at exactly 24 + body_length, without panic, within the read bound; client level: Client::handle on an '
                     'oversized frame of every opcode class answers 0x03 and serves the follower; the configured item size limit is the one that reaches every listener '
                     '(server construction path, both runtime types), confirmed on the real server started from CLI arguments.',
                design='5 C13', note=SOCK_NOTE + ' <= 3 (quick) / 4 (thorough) reads; bodies needing more 64 KiB skip reads are outside the bound.'),
    'C17': dict(text='The spawned connection task (async block of MemcacheTcpServer::run) executed for every kind of ending (close, quit, quitq, '
                     'mid-request disconnect (also in the middle of an oversized body), reset, protocol error, oversized item, idle timeout, write error) at symbolic cut offsets and '
                     'segmentations: it terminates and returns exactly one permit (Drop for Client), also on unwinding; the accept loop with failing accept() / '
                     'failing socket set-up: min(incoming, permits) connections are served, a returned permit admits exactly one waiter, and once every connection '
                     'has ended `limit` fresh ones are served again; native loopback runs (limit 1, RST in the backlog, file-descriptor exhaustion) confirm.',
                design='5 C17', note=SOCK_NOTE + ' tokio Semaphore trusted to be a counter; sequences of lifecycles by induction on the counter; '
                                                 'the accept-side acquire+forget is read from one iteration of the accept loop where the engine reaches it.'),
    'C18': dict(text='The real connection loop on m complete requests followed by a fault (close / reset / silence after a symbolic number of bytes of the '
                     'next request, or a corrupted magic byte) with symbolic segmentation and, for complete-then-close streams, a symbolic spare capacity of the read buffer: exactly the complete requests are executed, once each and '
                     'in order (a prefix after a reset), never the incomplete one, responses in order, the task returns; natively a second connection '
                     'is still served; the accept loop of MemcacheTcpServer::run survives an error on an accepted socket (peer_addr failing, reset in the backlog).',
                design='5 C18', note=SOCK_NOTE + ' Task isolation is tokio\'s (trusted).'),
})
CONC_NOTE = NOTE_COMMON + (' Concurrency: simulated threads execute the real MemcStore methods from MIR and are interleaved at every call into a shared '
             'object (DashMap methods, atomics; guards hold the shard lock until their drop); all schedules of the listed client programs are explored, '
             'data symbolic, clock constant during the episode, sequential consistency assumed. Witness schedules are replayed by forcing real threads '
             'through the same order of steps via the cfg(memcrs_verif) yield points.')
CHECKS.update({
    'C03': dict(text='Exhaustive schedule exploration of get / set / CAS-set / delete programs of 2-3 clients on one key; per schedule and path the solver '
                     'decides linearizability against a reference semantics with CAS values as tokens; direct assertions: at most one of two same-CAS '
                     'stores on a live item succeeds, an acknowledged store is not undone by a retrieval collecting an expired predecessor; the 2-client programs '
                     'also on the store behind RandomPolicy.',
                design='5 C03', note=CONC_NOTE + ' One known finding (conditional store on an absent key: get_mut then insert).'),
    'C04': dict(text='Same machinery on add / replace / append / prepend / incr / decr racing each other and set / delete / get, with the named consequences '
                     'as direct assertions. All six commands are lookup-then-store: one known finding per command (role-based region: a foreign mutation '
                     'between the lookup and the store); non-linearizable behaviour outside those windows is a violation.',
                design='5 C04', note=CONC_NOTE),
    'C16': dict(text='(a) every command of both store variants from an arbitrary state: no map call while the thread holds a guard of the map, closures under a '
                     'shard lock make no map call, loops end within the unwinding bound; (b) all schedules of 2-3 clients incl. flush and evicting stores: '
                     'some client can always step and every command returns; (c) the connection loop towards a peer that stops reading: the task suspends, no loop spins '
                     '(TcpStream::writable/try_write models), confirmed over loopback with non-reading clients.',
                design='5 C16', note=CONC_NOTE + ' Same-shard worst case for every pair of keys; lock fairness not modelled.'),
    'C20': dict(text='(a) relational one-step check: every command gives the same result and map contents with and without the eviction layer while the limit '
                     'is not reached, linked to histories by a headroom BMC (accounted usage stays within reach of the bytes sent) and a relational BMC of both '
                     'systems in one query; (b) symbolic execution of the server construction path: configured item limit / connection limit / store / policy are '
                     'the ones that reach the codec, the semaphore and every listener.',
                design='5 C20', note=NOTE_COMMON + ' Not decidable here and not claimed: equivalence of tokio schedulers and worker counts, SO_REUSEPORT '
                                                   'distribution, ports (no code of this crate to encode). The clock task SystemTimer::run is encoded over a model of tokio\'s interval '
                                                   '(documented Burst/Delay/Skip semantics, time symbolic); that tokio\'s real interval follows its documentation is trusted and exercised natively.'),
})
NA = {
}
ALL = ['C%02d' % i for i in range(1, 21)]


def main():
    checks = []
    for pid in ALL:
        if pid not in CHECKS:
            continue
        c = CHECKS[pid]
        checks.append({
            'property_id': pid,
            'quick_cmd': f'./check {pid} --tier quick',
            'thorough_cmd': f'./check {pid} --tier thorough',
            'evidence_file': f'/verif/evidence/{pid}.json',
            'replay_cmd_template': f'./check {pid} --replay {{path}}',
            'engine': 'mirse',
            'level_claimed': {'category': 'model_checking', 'text': c['text'], 'design_ref': 'DESIGN.md section ' + c['design']},
            'level_note': c['note'],
            'technique': TECH,
        })
    na = [{'property_id': p, 'reason': NA.get(p, 'check not built yet in this session (work in progress; see DESIGN.md section 5 for the planned encoding)')}
          for p in ALL if p not in CHECKS]
    m = {
        'version': 1,
        'setup_cmd': 'python3-vt -m mirse.prepare',
        'hooks': {
            'guard': '--cfg memcrs_verif',
            'enable': 'RUSTFLAGS="--cfg memcrs_verif" (set by mirse/prepare.py for the MIR dump and the replay driver build)',
            'baseline_off_cmd': 'cd /repo && cargo test --workspace --no-fail-fast --offline',
            'source_commits': ['6e0d0f8', 'd665fb0', '64d4a7f'],
            'add_only': True,
        },
        'engines': [{'name': 'mirse', 'path': '/verif/mirse', 'serves_properties': sorted(CHECKS),
                     'kind_free_text': 'symbolic executor over rustc -Zunpretty=mir text (Python) with z3 5.1 deciding every branch and '
                                       'every property query; native replay driver /verif/replay (Rust, path dependency on a snapshot of /repo)'}],
        'checks': checks,
        'not_applicable': na,
        'notes': 'All checks share one engine; ./check <id> re-snapshots /repo, re-dumps the MIR when the sources changed and rebuilds the replay driver.',
    }
    with open(os.path.join(HERE, 'MANIFEST.json'), 'w') as f:
        json.dump(m, f, indent=1)


if __name__ == '__main__':
    main()

"""MIRSE: symbolic execution of rustc MIR with z3 (see DESIGN.md section 3)."""

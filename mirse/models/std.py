"""std / core / log / tracing / fmt models."""
import re, z3
from ..values import *
from . import reg, reg_re
from .. import mirparse


def closure_target(E, clo):
    """(callable target, first-arg value) for a closure / fn item value"""
    if isinstance(clo, FnPtr):
        t = E.resolve(clo.name)
        if t is None:
            raise Unsupported('fn item ' + clo.name)
        return t, None
    if isinstance(clo, Ref):
        v = E.load(clo)
        if isinstance(v, Agg) and v.ty.startswith('closure:'):
            f = E.fns[v.ty[8:]]
            return f, clo
        if isinstance(v, Ref) or isinstance(v, FnPtr):
            return closure_target(E, v)
        raise Unsupported(f'closure ref to {v!r}')
    if isinstance(clo, Agg) and clo.ty.startswith('closure:'):
        f = E.fns[clo.ty[8:]]
        t1 = f.locals.get('_1', '')
        if t1.startswith('&'):
            c = E.alloc(clo)
            return f, Ref(c)
        return f, clo
    raise Unsupported(f'not callable: {clo!r}')


def call_closure(E, clo, args):
    """generator helper: result = yield from call_closure(E, clo, [a, b])"""
    tgt, env = closure_target(E, clo)
    if env is None:
        r = yield ('call', tgt, list(args))
    else:
        r = yield ('call', tgt, [env] + list(args))
    return r


def install(E):
    # ---------------------------------------------------------------- logging / formatting: never the subject
    @reg(E, '<log::Level as PartialOrd<log::LevelFilter>>::le',
         '<tracing::Level as PartialOrd<tracing::level_filters::LevelFilter>>::le')
    def _disabled(E, a, ctx):
        return z3.BoolVal(False)

    @reg(E, 'max_level', 'log::max_level', 'tracing::level_filters::LevelFilter::current')
    def _lvl(E, a, ctx):
        return Enum('LevelFilter', 0)

    @reg(E, 'yield_point', 'verif_hooks::yield_point', 'crate::verif_hooks::yield_point')
    def _yield_point(E, a, ctx):
        # the cfg(memcrs_verif) replay hook: a no-op unless a native driver installed a callback
        return UNIT

    @reg(E, 'log::__private_api::log', 'Event::dispatch', 'log::__private_api::loc')
    def _nolog(E, a, ctx):
        return UNIT

    @reg(E, 'format', 'std::fmt::format', 'alloc::fmt::format')
    def _format(E, a, ctx):
        return Opaque('String')

    @reg(E, 'must_use')
    def _must_use(E, a, ctx):
        return a[0]

    @reg(E, 'core::fmt::rt::Argument::new_debug', 'core::fmt::rt::Argument::new_display',
         'core::fmt::rt::Argument::new_lower_hex')
    def _arg(E, a, ctx):
        return Opaque('fmt::Argument')

    @reg(E, 'Arguments::new', 'Arguments::from_str', 'Arguments::from_str_nonconst', 'Arguments::new_const',
         'Arguments::new_v1')
    def _args(E, a, ctx):
        return Opaque('fmt::Arguments')

    @reg(E, 'panic_fmt', 'core::panicking::panic_fmt', 'core::panicking::panic', 'std::rt::begin_panic')
    def _panic(E, a, ctx):
        raise Panic('explicit panic [' + ctx.callee[:60] + ']')

    # ---------------------------------------------------------------- io::Error
    @reg(E, 'std::io::Error::new')
    def _ioerr(E, a, ctx):
        return Agg('io::Error', [a[0], a[1] if len(a) > 1 else None])

    @reg(E, 'std::io::Error::kind')
    def _ioerr_kind(E, a, ctx):
        return E.load(a[0]).fields[0]

    @reg(E, '<std::io::ErrorKind as PartialEq>::eq')
    def _kind_eq(E, a, ctx):
        x = E.load(a[0])
        y = E.load(a[1])
        if isinstance(x, Enum) and isinstance(y, Enum):
            return z3.BoolVal(x.var == y.var)
        return E.fresh('errkind_eq', 'bool')

    # ---------------------------------------------------------------- mem / cmp / defaults
    @reg(E, 'std::mem::size_of', 'core::mem::size_of')
    def _size_of(E, a, ctx):
        ty = ctx.generic(0)
        if ty in W:
            return BV(W[ty] // 8)
        t = ty.split('::')[-1]
        if t == 'CacheMetaData':
            return BV(24)      # u64 + u64 + u32 + u32 (repr(Rust), no padding needed)
        raise Unsupported('size_of ' + ty)

    @reg(E, 'std::cmp::min', 'core::cmp::min')
    def _min(E, a, ctx):
        return z3.If(z3.ULE(a[0], a[1]), a[0], a[1])

    @reg(E, 'std::cmp::max', 'core::cmp::max')
    def _max(E, a, ctx):
        return z3.If(z3.UGE(a[0], a[1]), a[0], a[1])

    @reg_re(E, r'^<(u8|u16|u32|u64|usize) as Default>::default$')
    def _int_default(E, a, ctx):
        ty = re.match(r'^<(\w+) as', ctx.callee).group(1)
        return BV(0, W[ty])

    @reg(E, '<Atomic<u64> as Default>::default')
    def _atomic_default(E, a, ctx):
        return BV(0)

    @reg_re(E, r'^core::num::(<impl \w+>::)?(checked|wrapping|saturating|overflowing)_(add|sub|mul)$')
    def _int_arith(E, a, ctx):
        nm = strip(ctx.callee).split('::')[-1]
        mode, op = nm.split('_')
        x, y = a
        if op == 'add':
            r = x + y
            o = z3.ULT(r, x)
        elif op == 'sub':
            r = x - y
            o = z3.ULT(x, y)
        else:
            r = x * y
            o = z3.Not(z3.BVMulNoOverflow(x, y, False))
        if mode == 'wrapping':
            return r
        if mode == 'overflowing':
            return Agg('tuple', [r, o])
        if mode == 'checked':
            return NONE if E.decide(o) else some(r)
        w = x.size()
        if op == 'sub':
            return z3.If(o, BV(0, w), r)
        return z3.If(o, BV((1 << w) - 1, w), r)

    @reg(E, 'Duration::from_secs', 'std::time::Duration::from_secs')
    def _dur(E, a, ctx):
        return Agg('Duration', [a[0]])

    # ---------------------------------------------------------------- Arc / Box / Pin / Deref / Clone
    @reg(E, 'Arc::new', 'Box::new', 'std::sync::Arc::new')
    def _arc_new(E, a, ctx):
        return Ref(E.alloc(a[0]))

    @reg_re(E, r'^<Arc<.*> as Deref>::deref$')
    def _arc_deref(E, a, ctx):
        return E.load(a[0])

    @reg_re(E, r'^<Arc<.*> as Clone>::clone$')
    def _arc_clone(E, a, ctx):
        v = E.load(a[0])
        E.events.append(('arc_clone', v.cell if isinstance(v, Ref) else None))
        return v

    @reg_re(E, r'^Pin(::<.*>)?::new_unchecked$')
    def _pin(E, a, ctx):
        return Agg('Pin', [a[0]])

    @reg_re(E, r'^Pin(::<.*>)?::(get_unchecked_mut|get_mut|into_inner|as_mut)$')
    def _unpin(E, a, ctx):
        v = a[0]
        if isinstance(v, Ref):
            v = E.load(v)
        return v.fields[0] if ctx.callee.split('::')[-1] != 'as_mut' else v

    @reg_re(E, r'^<.* as IntoFuture>::into_future$')
    def _into_future(E, a, ctx):
        return a[0]

    @reg_re(E, r'^<(CacheMetaData|RequestHeader|ResponseHeader|MemcacheServerConfig|DeltaParam) as Clone>::clone$')
    def _copy_clone(E, a, ctx):
        return E.load(a[0])

    @reg(E, '<std::string::String as From<&str>>::from')
    def _string_from(E, a, ctx):
        return a[0]

    @reg(E, '<std::string::String as Deref>::deref', 'std::string::String::as_str')
    def _string_deref(E, a, ctx):
        return E.load(a[0]) if isinstance(a[0], Ref) else a[0]

    @reg(E, '<str as PartialEq>::eq')
    def _str_eq(E, a, ctx):
        x, y = a
        x = E.load(x) if isinstance(x, Ref) else x
        y = E.load(y) if isinstance(y, Ref) else y
        if isinstance(x, Opaque) and isinstance(y, Opaque) and x.tag.startswith('str:') and y.tag.startswith('str:'):
            return z3.BoolVal(x.tag == y.tag)
        return E.fresh('str_eq', 'bool')

    @reg_re(E, r'^<&(mut )?.* as PartialEq(<.*>)?>::(eq|ne)$')
    def _ref_eq(E, a, ctx):
        # impl PartialEq<&B> for &A: compare the referents
        m = re.match(r'^<&(?:mut )?(.*) as PartialEq(?:<.*>)?>::(eq|ne)$', ctx.callee)
        inner = f'<{m.group(1)} as PartialEq>::eq'
        t = E.resolve(inner)
        if t is None:
            raise Unsupported('no eq for ' + ctx.callee)
        r = yield ('call', t, [E.load(a[0]), E.load(a[1])], inner)
        return r if m.group(2) == 'eq' else z3.Not(r)

    @reg_re(E, r'^<.* as PartialEq(<.*>)?>::ne$')
    def _ne(E, a, ctx):
        # the provided method: !self.eq(other)
        eq = ctx.callee[:-4] + '::eq'
        t = E.resolve(eq)
        if t is None:
            raise Unsupported('no eq for ' + ctx.callee)
        r = yield ('call', t, a, eq)
        return z3.Not(r)

    # ---------------------------------------------------------------- Option / Result
    @reg_re(E, r'^<.* as Try>::branch$')
    def _branch(E, a, ctx):
        r = a[0]
        if r.ty == 'Option':
            return Enum('ControlFlow', 0, r.fields) if r.var == 1 else Enum('ControlFlow', 1, [NONE])
        return Enum('ControlFlow', 0, r.fields) if r.var == 0 else Enum('ControlFlow', 1, [Enum('Result', 1, r.fields)])

    @reg_re(E, r'^<.* as FromResidual<.*>>::from_residual$')
    def _from_residual(E, a, ctx):
        r = a[0]
        if r.ty == 'Option':
            return NONE
        return Enum('Result', 1, r.fields)

    @reg_re(E, r'^std::result::Result::(map|map_err|and_then)$')
    def _result_comb(E, a, ctx):
        kind = ctx.callee and strip(ctx.callee).split('::')[-1]
        r, clo = a
        hit = (r.var == 0) if kind in ('map', 'and_then') else (r.var == 1)
        if not hit:
            return r
        out = yield from call_closure(E, clo, [r.fields[0]])
        if kind == 'map':
            return ok(out)
        if kind == 'map_err':
            return err(out)
        return out

    @reg_re(E, r'^std::option::Option::(map|and_then)$')
    def _option_comb(E, a, ctx):
        kind = strip(ctx.callee).split('::')[-1]
        r, clo = a
        if r.var == 0:
            return r
        out = yield from call_closure(E, clo, [r.fields[0]])
        return some(out) if kind == 'map' else out

    @reg(E, 'std::option::Option::expect', 'std::option::Option::unwrap')
    def _opt_unwrap(E, a, ctx):
        if a[0].var == 0:
            raise Panic('Option::unwrap/expect on None')
        return a[0].fields[0]

    @reg(E, 'std::result::Result::unwrap', 'std::result::Result::expect')
    def _res_unwrap(E, a, ctx):
        if a[0].var == 1:
            raise Panic('Result::unwrap/expect on Err')
        return a[0].fields[0]

    @reg(E, 'std::result::Result::is_err')
    def _is_err(E, a, ctx):
        return z3.BoolVal(E.load(a[0]).var == 1)

    @reg(E, 'std::result::Result::is_ok')
    def _is_ok(E, a, ctx):
        return z3.BoolVal(E.load(a[0]).var == 0)

    @reg(E, 'std::option::Option::is_some')
    def _is_some(E, a, ctx):
        return z3.BoolVal(E.load(a[0]).var == 1)

    @reg(E, 'std::option::Option::is_none')
    def _is_none(E, a, ctx):
        return z3.BoolVal(E.load(a[0]).var == 0)

    # ---------------------------------------------------------------- closures through Fn* traits, dyn dispatch
    @reg_re(E, r'^<.* as Fn(Once|Mut)?<.*>>::call(_once|_mut)?$')
    def _fn_call(E, a, ctx):
        clo, tup = a
        args = list(tup.fields) if isinstance(tup, Agg) and tup.ty in ('tuple', '()') else [tup]
        r = yield from call_closure(E, clo, args)
        return r

    @reg_re(E, r'^<(dyn [^>]*?|Self) as (\w+)>::(\w+)$')
    def _dyn(E, a, ctx):
        m = re.match(r'^<(dyn [^>]*?|Self) as (\w+)>::(\w+)$', strip(ctx.callee))
        tr, meth = m.group(2), m.group(3)
        obj = E.load(a[0]) if isinstance(a[0], Ref) else a[0]
        ty = getattr(obj, 'ty', None)
        h = getattr(obj, 'dyn_call', None)
        if h is not None:
            r = h(E, tr, meth, a, ctx)
            if r is not NotImplemented:
                return r
        f = E.by_method.get((f"<{ty} as {tr}>", meth)) or E.fns.get(f"{tr}::{meth}")
        if f is None:
            raise Unsupported(f'dyn dispatch {tr}::{meth} on {ty}')
        r = yield ('call', f, a)
        return r

    @reg(E, '<u64 as ToString>::to_string', '<usize as ToString>::to_string')
    def _to_string(E, a, ctx):
        return Agg('DecString', [E.load(a[0])])

    # ---------------------------------------------------------------- enum <-> int (num-derive FromPrimitive)
    @reg_re(E, r'^<.* as FromPrimitive>::from_u8$')
    def _from_u8(E, a, ctx):
        ty = re.match(r'^<(.*) as FromPrimitive>', strip(ctx.callee)).group(1)
        # num-traits' provided method: from_u8(n) = Self::from_u64(n as u64); the derive supplies from_u64
        cands = [f for n, f in E.fns.items() if n.endswith('::from_u64') and ('Option<' + ty + '>') in f.ret]
        if len(cands) != 1:
            raise Unsupported('from_u64 for ' + ty)
        r = yield ('call', cands[0], [z3.ZeroExt(56, a[0])])
        return r

    # ---------------------------------------------------------------- ranges (for loops)
    @reg_re(E, r'^<std::ops::Range<\w+> as IntoIterator>::into_iter$')
    def _range_into(E, a, ctx):
        return a[0]

    @reg_re(E, r'^<std::ops::Range<\w+> as Iterator>::next$')
    def _range_next(E, a, ctx):
        r = E.load(a[0])
        lo, hi = r.fields
        if E.decide(z3.ULT(lo, hi)):
            E.store(a[0], Agg(r.ty, [lo + 1, hi]))
            return some(lo)
        return NONE


def strip(name):
    from ..interp import strip_generics
    return strip_generics(name)

"""Model of `DashMap<Bytes, Record>`: a finite map over the K keys the harness uses (every other key is absent).

Each method is one atomic step (DashMap's documented per-call atomicity).  `get`/`get_mut` return guards that hold
the (worst case: same) shard lock until dropped; any map call by a thread that holds a guard of that map is a
self-deadlock (DashMap's documented "do not call while holding a reference" rule).
"""
import z3
from ..values import *
from . import reg, reg_re
from .std import call_closure


class KeyTok:
    """a key known to the harness: slot index in the map model"""
    __slots__ = ('idx', 'ty')

    def __init__(self, idx):
        self.idx = idx
        self.ty = 'KeyTok'

    def __repr__(self):
        return f'Key#{self.idx}'


class Slot:
    __slots__ = ('present_cell', 'rec_cell', 'key')

    def __init__(self, present_cell, rec_cell, key):
        self.present_cell = present_cell
        self.rec_cell = rec_cell
        self.key = key


class DMap:
    def __init__(self, E, slots, name='map'):
        self.slots = slots
        self.ty = 'DashMap'
        self.name = name
        self.writer = None
        self.readers = {}
        self.key_resolver = None

    def slot_of(self, E, keyval):
        if isinstance(keyval, KeyTok):
            return self.slots[keyval.idx]
        if self.key_resolver is not None:
            return self.slots[self.key_resolver(E, keyval)]
        raise Unsupported(f'unknown key {keyval!r}')

    def present(self, E, s):
        return E.heap[s.present_cell]

    def count(self, E):
        n = BV(0)
        for s in self.slots:
            n = n + z3.If(E.heap[s.present_cell], BV(1), BV(0))
        return z3.simplify(n)


class Guard:
    def __init__(self, kind, dmap, slot, th):
        self.kind = kind
        self.dmap = dmap
        self.slot = slot
        self.th = th
        self.ty = 'Guard'
        self.live = True

    def release(self, E, th):
        if not self.live:
            return
        self.live = False
        m = self.dmap
        if self.kind == 'w':
            m.writer = None
        else:
            m.readers[self.th] = m.readers.get(self.th, 1) - 1
            if m.readers[self.th] <= 0:
                del m.readers[self.th]
        if self in self.th.guards:
            self.th.guards.remove(self)
        E.events.append(('map.release', self.th.tid))

    def __repr__(self):
        return f'Guard({self.kind})'


def new_map(E, nkeys, name='map', records=None, present=None):
    slots = []
    for i in range(nkeys):
        pc = E.alloc(present[i] if present else z3.BoolVal(False))
        rc = E.alloc(records[i] if records else None)
        slots.append(Slot(pc, rc, KeyTok(i)))
    return DMap(E, slots, name)


def _check_self(E, m, th, op):
    """a map call while this thread holds a guard of the same map never returns (same shard assumed)"""
    for g in th.guards:
        if g.dmap is m and g.live:
            E.events.append(('self-deadlock', op))
            raise Deadlock(f'{op} while holding a {g.kind}-guard of the same map')


def _enabled_read(E, th, a):
    m = E.load(a[0])
    return m.writer is None or m.writer is th


def _enabled_write(E, th, a):
    m = E.load(a[0])
    if m.writer is not None and m.writer is not th:
        return False
    return all(t is th for t in m.readers)


def install(E):
    def ev(E, name, ctx, *rest):
        E.events.append((name, ctx.thread.tid) + rest)

    def d_get(kind):
        def f(E, a, ctx):
            m = E.load(a[0])
            th = ctx.thread
            _check_self(E, m, th, 'map.get' if kind == 'r' else 'map.get_mut')
            s = m.slot_of(E, E.load(a[1]))
            hit = E.decide(E.heap[s.present_cell])
            ev(E, 'map.get' if kind == 'r' else 'map.get_mut', ctx, s.key.idx, 'hit' if hit else 'miss')
            if hit:
                g = Guard(kind, m, s, th)
                if kind == 'w':
                    m.writer = th
                else:
                    m.readers[th] = m.readers.get(th, 0) + 1
                th.guards.append(g)
                return some(g)
            return NONE
        f.shared = 'map.get' if kind == 'r' else 'map.get_mut'
        f.enabled = _enabled_read if kind == 'r' else _enabled_write
        return f
    E.models['DashMap::get'] = d_get('r')
    E.models['DashMap::get_mut'] = d_get('w')

    def d_try_get(kind):
        def f(E, a, ctx):
            m = E.load(a[0])
            th = ctx.thread
            op = 'map.try_get' if kind == 'r' else 'map.try_get_mut'
            s = m.slot_of(E, E.load(a[1]))
            # the shard lock is taken with try_lock: busy (someone holds a conflicting guard, this thread included) => Locked
            busy = (m.writer is not None) or (kind == 'w' and len(m.readers) > 0)
            if busy:
                ev(E, op, ctx, s.key.idx, 'locked')
                return Enum('TryResult', 2)
            ev(E, op, ctx, s.key.idx, 'unlocked')
            if E.decide(E.heap[s.present_cell]):
                g = Guard(kind, m, s, th)
                if kind == 'w':
                    m.writer = th
                else:
                    m.readers[th] = m.readers.get(th, 0) + 1
                th.guards.append(g)
                return Enum('TryResult', 0, [g])
            return Enum('TryResult', 1)
        f.shared = 'map.get' if kind == 'r' else 'map.get_mut'
        return f
    E.models['DashMap::try_get'] = d_try_get('r')
    E.models['DashMap::try_get_mut'] = d_try_get('w')

    @reg_re(E, r'^(dashmap::try_result::)?TryResult(::<.*>)?::(try_unwrap|unwrap|is_present|is_absent|is_locked)$')
    def try_result(E, a, ctx):
        nm = ctx.callee.split('::')[-1]
        v = a[0] if not isinstance(a[0], Ref) else E.load(a[0])
        if nm == 'try_unwrap':
            return some(v.fields[0]) if v.var == 0 else NONE
        if nm == 'unwrap':
            if v.var != 0:
                raise Panic('TryResult::unwrap on ' + ('Absent' if v.var == 1 else 'Locked'))
            return v.fields[0]
        return z3.BoolVal(v.var == {'is_present': 0, 'is_absent': 1, 'is_locked': 2}[nm])

    @reg_re(E, r'^<dashmap::mapref::one::Ref(Mut)?<.*> as Deref(Mut)?>::deref(_mut)?$')
    def guard_deref(E, a, ctx):
        g = E.load(a[0])
        if 'DerefMut' in ctx.callee and g.kind != 'w':
            raise Unsupported('deref_mut of a read guard')
        return Ref(g.slot.rec_cell)

    @reg(E, 'DashMap::insert', shared='map.insert', enabled=_enabled_write)
    def d_insert(E, a, ctx):
        m = E.load(a[0])
        _check_self(E, m, ctx.thread, 'map.insert')
        s = m.slot_of(E, a[1])
        ev(E, 'map.insert', ctx, s.key.idx)
        if E.decide(E.heap[s.present_cell]):
            old = some(E.heap[s.rec_cell])
        else:
            old = NONE
        E.heap[s.present_cell] = z3.BoolVal(True)
        E.heap[s.rec_cell] = a[2]
        return old

    @reg(E, 'DashMap::remove', shared='map.remove', enabled=_enabled_write)
    def d_remove(E, a, ctx):
        m = E.load(a[0])
        _check_self(E, m, ctx.thread, 'map.remove')
        s = m.slot_of(E, E.load(a[1]))
        ev(E, 'map.remove', ctx, s.key.idx)
        if E.decide(E.heap[s.present_cell]):
            E.heap[s.present_cell] = z3.BoolVal(False)
            return some(Agg('tuple', [s.key, E.heap[s.rec_cell]]))
        return NONE

    @reg(E, 'DashMap::remove_if', shared='map.remove_if', enabled=_enabled_write)
    def d_remove_if(E, a, ctx):
        m = E.load(a[0])
        th = ctx.thread
        _check_self(E, m, th, 'map.remove_if')
        s = m.slot_of(E, E.load(a[1]))
        ev(E, 'map.remove_if', ctx, s.key.idx)
        if not E.decide(E.heap[s.present_cell]):
            return NONE
        # the predicate runs under the shard lock
        g = Guard('w', m, s, th)
        m.writer = th
        th.guards.append(g)
        kc = E.alloc(s.key)
        r = yield from call_closure(E, a[2], [Ref(kc), Ref(s.rec_cell)])
        g.release(E, th)
        if E.decide(r):
            E.heap[s.present_cell] = z3.BoolVal(False)
            return some(Agg('tuple', [s.key, E.heap[s.rec_cell]]))
        return NONE

    @reg(E, 'DashMap::alter_all', shared='map.alter_all', enabled=_enabled_write)
    def d_alter_all(E, a, ctx):
        m = E.load(a[0])
        th = ctx.thread
        _check_self(E, m, th, 'map.alter_all')
        ev(E, 'map.alter_all', ctx)
        for s in m.slots:
            if E.decide(E.heap[s.present_cell]):
                g = Guard('w', m, s, th)
                m.writer = th
                th.guards.append(g)
                kc = E.alloc(s.key)
                r = yield from call_closure(E, a[1], [Ref(kc), E.heap[s.rec_cell]])
                g.release(E, th)
                E.heap[s.rec_cell] = r
        return UNIT

    @reg(E, 'DashMap::clear', shared='map.clear', enabled=_enabled_write)
    def d_clear(E, a, ctx):
        m = E.load(a[0])
        _check_self(E, m, ctx.thread, 'map.clear')
        ev(E, 'map.clear', ctx)
        for s in m.slots:
            E.heap[s.present_cell] = z3.BoolVal(False)
        return UNIT

    @reg(E, 'DashMap::len', shared='map.len', enabled=_enabled_read)
    def d_len(E, a, ctx):
        m = E.load(a[0])
        _check_self(E, m, ctx.thread, 'map.len')
        ev(E, 'map.len', ctx)
        return m.count(E)

    @reg(E, 'DashMap::is_empty', shared='map.is_empty', enabled=_enabled_read)
    def d_is_empty(E, a, ctx):
        m = E.load(a[0])
        _check_self(E, m, ctx.thread, 'map.is_empty')
        ev(E, 'map.is_empty', ctx)
        return m.count(E) == BV(0)

    @reg(E, 'DashMap::new')
    def d_new(E, a, ctx):
        k = getattr(E, 'default_map_keys', 1)
        return new_map(E, k)

    @reg(E, 'DashMap::iter')
    def d_iter(E, a, ctx):
        m = E.load(a[0])
        _check_self(E, m, ctx.thread, 'map.iter')
        return Agg('DashIter', [m])

    @reg(E, 'dashmap::mapref::multiple::RefMulti::key')
    def rm_key(E, a, ctx):
        r = E.load(a[0]) if isinstance(a[0], Ref) else a[0]
        return Ref(E.alloc(r.fields[0].key))

    @reg(E, 'dashmap::mapref::multiple::RefMulti::value')
    def rm_value(E, a, ctx):
        r = E.load(a[0]) if isinstance(a[0], Ref) else a[0]
        return Ref(r.fields[0].rec_cell)

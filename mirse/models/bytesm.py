"""Models of `bytes::{Bytes, BytesMut}` and of byte-string contents.

Three representations, all immutable Python values:
  Buf   -- a contiguous window (base array, off, len) of a z3 array BV64->BV8: the wire buffer and what is split off it
  Rope  -- a sequence of parts built by put_*/extend_from_slice (responses, concatenations)
  VTerm -- a z3 term of the uninterpreted sort Val: a stored byte string whose content the property does not look into
           (vlen, vcat, vdec, visnum/vnum are uninterpreted functions; their defining facts are added when terms are built)
Lengths and offsets are 64-bit bit-vectors and are never bounded by the model.
"""
import z3
from ..values import *
from . import reg, reg_re

Val = z3.DeclareSort('Val')
B64 = z3.BitVecSort(64)
vlen = z3.Function('vlen', Val, B64)
vcat = z3.Function('vcat', Val, Val, Val)
vdec = z3.Function('vdec', B64, Val)
visnum = z3.Function('visnum', Val, z3.BoolSort())
vutf8 = z3.Function('vutf8', Val, z3.BoolSort())
vnum = z3.Function('vnum', Val, B64)
vempty = z3.Const('vempty', Val)
# the content of a window (offset, length) of the wire array, seen as a stored byte string (used when the code compares a
# request's bytes with stored bytes): uninterpreted, so equality with another term is a free choice of the solver; witness
# concretisation gives the stored term the window's bytes (props/store_replay.Concretizer), replay confirms or refutes it
vwin = z3.Function('vwin', B64, B64, Val)
WIRE = z3.Array('wire', B64, z3.BitVecSort(8))


def val_axioms():
    """facts about the constant vempty; included in every path condition that mentions Val terms"""
    return [vlen(vempty) == 0, z3.Not(visnum(vempty))]


class Buf:
    __slots__ = ('base', 'off', 'len', 'cap', 'tag')

    def __init__(self, base, off, ln, cap=None, tag=None):
        self.base = base
        self.off = off
        self.len = ln
        self.cap = cap
        self.tag = tag

    def __repr__(self):
        return f"Buf(off={z3.simplify(self.off)},len={z3.simplify(self.len)})"

    def byte(self, i):
        return z3.Select(self.base, self.off + (BV(i) if isinstance(i, int) else i))


class Rope:
    __slots__ = ('parts', 'cap')

    def __init__(self, parts=(), cap=None):
        self.parts = list(parts)
        self.cap = cap

    def __repr__(self):
        return f"Rope({self.parts})"


class VTerm:
    __slots__ = ('t',)

    def __init__(self, t):
        self.t = t

    def __repr__(self):
        return f"VTerm({self.t})"


def part_len(E, p):
    k = p[0]
    if k == 'bv':
        return BV(p[1].size() // 8)
    if k == 'buf':
        return p[1].len
    if k == 'val':
        return vlen(p[1])
    if k == 'lit':
        return BV(len(p[1]))
    if k == 'dec':
        return E_declen(p[1])
    if k == 'cut':
        return BV(0)
    raise Unsupported('part ' + k)


def E_declen(v):
    """number of decimal digits of a u64 (1..20)"""
    r = BV(20)
    for d in range(19, 0, -1):
        r = z3.If(z3.ULT(v, BV(10 ** d)), BV(d), r)
    return r


def blen(E, v):
    if isinstance(v, Buf):
        return v.len
    if isinstance(v, VTerm):
        return vlen(v.t)
    if isinstance(v, Rope):
        n = BV(0)
        for p in v.parts:
            n = n + part_len(E, p)
        return z3.simplify(n)
    if isinstance(v, Opaque) and v.tag.startswith('str:'):
        return BV(len(strlit(v)))
    if isinstance(v, Agg) and v.ty == 'DecString':
        return E_declen(v.fields[0])
    raise Unsupported(f'len of {v!r}')


def strlit(v):
    """python bytes of a string literal constant"""
    t = v.tag[4:]
    if t.startswith('b'):
        t = t[1:]
    body = t[1:-1]
    return bytes(body, 'utf-8').decode('unicode_escape').encode('latin-1')


def as_parts(E, v):
    if isinstance(v, Rope):
        return list(v.parts)
    if isinstance(v, Buf):
        return [('buf', v)]
    if isinstance(v, VTerm):
        return [('val', v.t)]
    if isinstance(v, Opaque) and v.tag.startswith('str:'):
        return [('lit', strlit(v))]
    if isinstance(v, Agg) and v.ty == 'DecString':
        return [('dec', v.fields[0])]
    if isinstance(v, Opaque):
        return [('opaque', v.tag)]
    raise Unsupported(f'bytes of {v!r}')


def deref(E, x):
    return E.load(x) if isinstance(x, Ref) else x


def mk_vcat(E, a, b):
    t = vcat(a, b)
    E.assume(vlen(t) == vlen(a) + vlen(b))
    return t


def mk_vdec(E, v):
    t = vdec(v)
    E.assume(visnum(t), vutf8(t), vnum(t) == v, vlen(t) == E_declen(v))
    return t


def to_val(E, x):
    """any byte-string representation as a Val term"""
    if isinstance(x, VTerm):
        return x.t
    if isinstance(x, Rope):
        x = freeze_rope(E, x)
        if isinstance(x, VTerm):
            return x.t
        if isinstance(x, Rope) and not x.parts:
            return vempty
    if isinstance(x, Buf) and x.base.eq(WIRE):
        t = vwin(x.off, x.len)
        E.assume(vlen(t) == x.len)
        return t
    raise Unsupported(f'byte-string comparison of {x!r}')


def freeze_rope(E, r):
    """a Rope made only of Val parts becomes a Val term again (so that stored values stay solver terms)"""
    ps = [p for p in r.parts if not (p[0] == 'lit' and len(p[1]) == 0)]
    if ps and all(p[0] in ('val', 'dec') for p in ps):
        ts = [p[1] if p[0] == 'val' else mk_vdec(E, p[1]) for p in ps]
        t = ts[0]
        for u in ts[1:]:
            t = mk_vcat(E, t, u)
        return VTerm(t)
    if len(ps) == 1 and ps[0][0] == 'buf':
        return ps[0][1]
    return Rope(ps, r.cap)


def install(E):
    def _reset(E):
        E.known_bytes = {}
    E.hooks.setdefault('reset', []).append(_reset)

    def get_n(nbytes):
        def f(E, a, ctx):
            b = E.load(a[0])
            if not isinstance(b, Buf):
                raise Unsupported(f'get_u{nbytes*8} on {b!r}')
            if not E.decide(z3.UGE(b.len, BV(nbytes))):
                raise Panic(f'Buf::get_u{nbytes * 8}: buffer too short')
            v = None
            kb = getattr(E, 'known_bytes', None)
            if kb and b.base.eq(WIRE):
                # bytes the harness has fixed by assumption (a concretely laid out frame) are read as constants
                o = z3.simplify(b.off)
                if z3.is_bv_value(o):
                    o = o.as_long()
                    if all((o + i) in kb for i in range(nbytes)):
                        x = 0
                        for i in range(nbytes):
                            x = (x << 8) | kb[o + i]
                        v = z3.BitVecVal(x, 8 * nbytes)
            if v is None:
                if nbytes > 1:
                    v = z3.Concat(*[z3.Select(b.base, b.off + BV(i)) for i in range(nbytes)])
                else:
                    v = z3.Select(b.base, b.off)
            E.store(a[0], Buf(b.base, b.off + BV(nbytes), b.len - BV(nbytes), b.cap - BV(nbytes) if b.cap is not None else None, b.tag))
            return v
        return f
    for n in (1, 2, 4, 8):
        E.models[f'<BytesMut as Buf>::get_u{n * 8}'] = get_n(n)

    @reg(E, 'BytesMut::split_to')
    def split_to(E, a, ctx):
        b = E.load(a[0])
        n = a[1]
        if isinstance(b, Rope) and not b.parts:
            if not E.decide(n == 0):
                raise Panic('split_to out of bounds')
            return Rope([])
        if not E.decide(z3.ULE(n, b.len)):
            raise Panic('split_to out of bounds')
        E.store(a[0], Buf(b.base, b.off + n, b.len - n, b.cap - n if b.cap is not None else None, b.tag))
        return Buf(b.base, b.off, n, n)

    @reg(E, 'BytesMut::split_off')
    def split_off(E, a, ctx):
        b = E.load(a[0])
        at = a[1]
        if isinstance(b, Rope) and not b.parts:
            b = Buf(WIRE, BV(0), BV(0), b.cap)
        # bytes asserts `at <= capacity()`; the model is stricter only where capacity is unknown
        bound = b.cap if b.cap is not None else b.len
        if not E.decide(z3.ULE(at, bound)):
            raise Panic('split_off out of bounds')
        keep = z3.If(z3.ULE(at, b.len), at, b.len)
        E.store(a[0], Buf(b.base, b.off, keep, at, b.tag))
        return Buf(b.base, b.off + keep, b.len - keep, (b.cap - at) if b.cap is not None else None, b.tag)

    @reg(E, '<BytesMut as Buf>::advance', 'BytesMut::advance')
    def advance(E, a, ctx):
        b = E.load(a[0])
        n = a[1]
        if isinstance(b, Rope) and not b.parts:
            if not E.decide(n == 0):
                raise Panic('advance out of bounds')
            return UNIT
        if not E.decide(z3.ULE(n, b.len)):
            raise Panic('advance out of bounds')
        E.store(a[0], Buf(b.base, b.off + n, b.len - n, b.cap - n if b.cap is not None else None, b.tag))
        return UNIT

    @reg(E, 'BytesMut::truncate', 'bytes::Bytes::truncate', 'Bytes::truncate')
    def truncate(E, a, ctx):
        b = E.load(a[0])
        n = a[1]
        if isinstance(b, Buf):
            if E.decide(z3.ULT(n, b.len)):
                E.store(a[0], Buf(b.base, b.off, n, b.cap, b.tag))
            return UNIT
        if E.decide(z3.UGE(n, blen(E, b))):
            return UNIT
        raise Unsupported('truncate of a rope')

    @reg_re(E, r'^(bytes::)?Bytes::slice$')
    def bslice(E, a, ctx):
        b = deref(E, a[0])
        rng = a[1]
        if not isinstance(b, Buf):
            raise Unsupported('slice of a non-contiguous byte string')
        n = blen(E, b)
        lo, hi = BV(0), n
        nm = getattr(rng, 'ty', '')
        f = list(getattr(rng, 'fields', []))
        if 'RangeFrom' in nm:
            lo = f[0]
        elif 'RangeTo' in nm:
            hi = f[0]
        elif 'RangeFull' in nm:
            pass
        elif len(f) == 2:
            lo, hi = f
        else:
            raise Unsupported(f'Bytes::slice({rng!r})')
        if not E.decide(z3.And(z3.ULE(lo, hi), z3.ULE(hi, n))):
            raise Panic('range out of bounds in Bytes::slice')
        return Buf(b.base, b.off + lo, hi - lo, None, b.tag)

    @reg(E, 'BytesMut::clear')
    def clear(E, a, ctx):
        b = E.load(a[0])
        if isinstance(b, Buf):
            E.store(a[0], Buf(b.base, b.off + b.len, BV(0), b.cap, b.tag))
        else:
            E.store(a[0], Rope([], b.cap))
        return UNIT

    @reg(E, 'BytesMut::len', 'bytes::Bytes::len', '<BytesMut as Buf>::remaining')
    def m_len(E, a, ctx):
        return blen(E, E.load(a[0]))

    @reg(E, 'BytesMut::is_empty', 'bytes::Bytes::is_empty')
    def m_is_empty(E, a, ctx):
        return blen(E, E.load(a[0])) == BV(0)

    @reg(E, 'BytesMut::capacity')
    def m_cap(E, a, ctx):
        b = E.load(a[0])
        if b.cap is None:
            raise Unsupported('capacity unknown')
        return b.cap

    @reg(E, 'BytesMut::freeze')
    def freeze(E, a, ctx):
        v = a[0]
        if isinstance(v, Rope):
            return freeze_rope(E, v)
        return v

    @reg(E, 'BytesMut::reserve')
    def reserve(E, a, ctx):
        b = E.load(a[0])
        add = a[1]
        E.events.append(('reserve', add))
        if b.cap is not None:
            ln = blen(E, b)
            need = ln + add
            ncap = z3.If(z3.UGE(b.cap - ln, add), b.cap, need)
            if isinstance(b, Buf):
                E.store(a[0], Buf(b.base, b.off, b.len, ncap, b.tag))
            else:
                E.store(a[0], Rope(b.parts, ncap))
        return UNIT

    @reg(E, 'BytesMut::new', 'bytes::Bytes::new')
    def new(E, a, ctx):
        return Rope([], BV(0))

    @reg(E, 'BytesMut::with_capacity')
    def with_cap(E, a, ctx):
        E.events.append(('with_capacity', a[0]))
        return Rope([], a[0])

    def put_n(nbytes):
        def f(E, a, ctx):
            b = E.load(a[0])
            if not isinstance(b, Rope):
                raise Unsupported('put on non-rope')
            E.store(a[0], Rope(b.parts + [('bv', a[1])], b.cap))
            return UNIT
        return f
    for n in (1, 2, 4, 8):
        E.models[f'<BytesMut as BufMut>::put_u{n * 8}'] = put_n(n)

    @reg(E, '<BytesMut as BufMut>::put_slice', 'BytesMut::extend_from_slice', '<BytesMut as BufMut>::put')
    def put_slice(E, a, ctx):
        b = E.load(a[0])
        if not isinstance(b, Rope):
            raise Unsupported('put on non-rope')
        src = deref(E, a[1])
        E.store(a[0], Rope(b.parts + as_parts(E, src), b.cap))
        return UNIT

    @reg(E, '<bytes::Bytes as Clone>::clone', '<BytesMut as Clone>::clone')
    def clone(E, a, ctx):
        return E.load(a[0])

    @reg(E, '<bytes::Bytes as Deref>::deref', '<BytesMut as Deref>::deref', '<[u8] as std::ops::Index<RangeFull>>::index',
         'core::str::as_bytes', 'std::string::String::as_bytes', '<bytes::Bytes as AsRef<[u8]>>::as_ref')
    def bderef(E, a, ctx):
        # a view of the same bytes: keep the reference (slices are read-only here)
        return a[0]

    @reg_re(E, r'^<\[u8\] as (std::ops::)?Index<(std::ops::)?RangeFrom<usize>>>::index$')
    def index_from(E, a, ctx):
        v = deref(E, a[0])
        start = a[1].fields[0]
        n = blen(E, v)
        if E.decide(start == 0):
            return a[0]
        if isinstance(v, Buf):
            return Ref(E.alloc(Buf(v.base, v.off + start, v.len - start, None)))
        if E.decide(start == n):
            return Ref(E.alloc(Rope([], None)))
        raise Unsupported('slice of a rope from a symbolic offset')

    @reg(E, 'core::str::len', 'std::string::String::len')
    def strlen(E, a, ctx):
        return blen(E, deref(E, a[0]))

    @reg(E, '<bytes::Bytes as From<std::string::String>>::from', '<bytes::Bytes as From<&str>>::from',
         '<bytes::Bytes as From<&[u8]>>::from')
    def from_string(E, a, ctx):
        v = deref(E, a[0])
        if isinstance(v, Agg) and v.ty == 'DecString':
            return VTerm(mk_vdec(E, v.fields[0]))
        return Rope(as_parts(E, v))

    @reg(E, '<bytes::Bytes as PartialEq>::eq')
    def beq(E, a, ctx):
        x, y = deref(E, a[0]), deref(E, a[1])
        return to_val(E, x) == to_val(E, y)

    # ---- text -> number (the abstraction point of C07: "decimal u64" is whatever str::parse::<u64> accepts)
    @reg(E, 'from_utf8', 'std::str::from_utf8', 'core::str::from_utf8')
    def from_utf8(E, a, ctx):
        v = deref(E, a[0])
        if isinstance(v, Buf) and v.base.eq(WIRE):
            # a stored value that is still a window of the wire (stored by an earlier request of the same pipeline): its content
            # as a byte-string term (whether it is UTF-8 / numeric is then a free choice of the solver, as for any stored value)
            v = VTerm(to_val(E, v))
        if isinstance(v, VTerm):
            if E.decide(vutf8(v.t)):
                return ok(Agg('StrOf', [v]))
            return err(Opaque('Utf8Error'))
        raise Unsupported(f'from_utf8 of {v!r}')

    @reg(E, 'core::str::parse')
    def parse(E, a, ctx):
        v = deref(E, a[0])
        ty = ctx.generic(0)
        if isinstance(v, Agg) and v.ty == 'StrOf' and ty == 'u64':
            t = v.fields[0].t
            if E.decide(visnum(t)):
                return ok(vnum(t))
            return err(Opaque('ParseIntError'))
        raise Unsupported(f'parse::<{ty}> of {v!r}')

"""Atomics (sequentially consistent, one step each), the symbolic clock and the RNG."""
import z3
from ..values import *
from . import reg, reg_re


class SymTimer:
    """`dyn Timer`: a symbolic clock.  mode 'step': constant until the harness advances it;
    mode 'monotone': every read returns a fresh value >= the previous one (time may pass at any point)."""

    def __init__(self, now, mode='step'):
        self.now = now
        self.mode = mode
        self.ty = 'SymTimer'

    def dyn_call(self, E, tr, meth, a, ctx):
        if meth != 'timestamp':
            return NotImplemented
        E.events.append(('clock', ctx.thread.tid))
        if self.mode == 'monotone':
            t = E.fresh('now', 64)
            E.assume(z3.UGE(t, self.now))
            self.now = t
            return t
        return self.now


def install(E):
    @reg(E, 'Atomic::new', 'AtomicU64::new', 'AtomicUsize::new')
    def a_new(E, a, ctx):
        return a[0]

    @reg(E, 'Atomic::fetch_add', shared='atomic.fetch_add')
    def fetch_add(E, a, ctx):
        old = E.load(a[0])
        E.store(a[0], old + a[1])
        E.events.append(('atomic.fetch_add', ctx.thread.tid))
        return old

    @reg(E, 'Atomic::fetch_sub', shared='atomic.fetch_sub')
    def fetch_sub(E, a, ctx):
        old = E.load(a[0])
        E.store(a[0], old - a[1])
        E.events.append(('atomic.fetch_sub', ctx.thread.tid))
        return old

    @reg(E, 'Atomic::fetch_max', shared='atomic.fetch_max')
    def fetch_max(E, a, ctx):
        old = E.load(a[0])
        E.store(a[0], z3.If(z3.UGE(old, a[1]), old, a[1]))
        E.events.append(('atomic.fetch_max', ctx.thread.tid))
        return old

    @reg(E, 'Atomic::fetch_update', shared='atomic.fetch_update')
    def fetch_update(E, a, ctx):
        # fetch_update(set_order, fetch_order, f): one atomic step here (the real CAS loop retries under contention)
        from .std import call_closure
        old = E.load(a[0])
        r = yield from call_closure(E, a[3], [old])
        E.events.append(('atomic.fetch_update', ctx.thread.tid))
        if r.var == 1:
            E.store(a[0], r.fields[0])
            return ok(old)
        return err(old)

    @reg(E, 'Atomic::compare_exchange', 'Atomic::compare_exchange_weak', shared='atomic.compare_exchange')
    def compare_exchange(E, a, ctx):
        # (the weak form may also fail spuriously; a correct retry loop reloads and makes progress either way, so the strong
        # form is explored: a loop that spins under it spins in reality as well)
        old = E.load(a[0])
        E.events.append(('atomic.compare_exchange', ctx.thread.tid))
        if E.decide(old == a[1]):
            E.store(a[0], a[2])
            return ok(old)
        return err(old)

    @reg(E, 'Atomic::swap', shared='atomic.swap')
    def a_swap(E, a, ctx):
        old = E.load(a[0])
        E.store(a[0], a[1])
        E.events.append(('atomic.swap', ctx.thread.tid))
        return old

    @reg(E, 'Atomic::load', shared='atomic.load')
    def a_load(E, a, ctx):
        return E.load(a[0])

    @reg(E, 'Atomic::store', shared='atomic.store')
    def a_store(E, a, ctx):
        E.store(a[0], a[1])
        return UNIT

    @reg(E, '<SmallRng as SeedableRng>::from_entropy')
    def rng_new(E, a, ctx):
        return Opaque('SmallRng')

    @reg(E, '<SmallRng as Rng>::gen_range')
    def gen_range(E, a, ctx):
        r = a[1]
        lo, hi = r.fields[0], r.fields[1]
        v = E.fresh('rnd', lo.size())
        E.assume(z3.UGE(v, lo), z3.ULT(v, hi))
        E.events.append(('rng', v))
        return v

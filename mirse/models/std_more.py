"""More of std/core: what ordinary refactorings of the crate reach for (Option/Result combinators, slice/array/Vec
iteration and search, integer helpers and conversions, mem::replace/take/swap, generic clone/default).  Kept separate from
std.py: none of this is used by the pinned tree; it exists so that a changed tree still executes instead of ending in
an unmodelled call."""
import re, z3
from ..values import *
from . import reg, reg_re
from .std import call_closure, strip


def _ld(E, x):
    return E.load(x) if isinstance(x, Ref) else x


def _int_ty(callee, which=0):
    m = re.findall(r'\b([iu](?:8|16|32|64|128|size))\b', callee)
    return m[which] if len(m) > which else None


def payload_ref(r, variant):
    return Ref(r.cell, r.path + (('downcast', variant), ('field', 0)))


def install(E):
    # ------------------------------------------------------------------ Option / Result
    @reg_re(E, r'^std::(option::Option|result::Result)::unwrap_or$')
    def unwrap_or(E, a, ctx):
        v = a[0]
        hit = (v.var == 1) if v.ty == 'Option' else (v.var == 0)
        return v.fields[0] if hit else a[1]

    @reg_re(E, r'^std::(option::Option|result::Result)::unwrap_or_else$')
    def unwrap_or_else(E, a, ctx):
        v = a[0]
        hit = (v.var == 1) if v.ty == 'Option' else (v.var == 0)
        if hit:
            return v.fields[0]
        r = yield from call_closure(E, a[1], [] if v.ty == 'Option' else [v.fields[0]])
        return r

    @reg_re(E, r'^std::(option::Option|result::Result)::unwrap_or_default$')
    def unwrap_or_default(E, a, ctx):
        v = a[0]
        hit = (v.var == 1) if v.ty == 'Option' else (v.var == 0)
        if hit:
            return v.fields[0]
        t = ctx.dst_ty
        if t in W:
            return BV(0, W[t])
        if t == 'bool':
            return z3.BoolVal(False)
        raise Unsupported('unwrap_or_default of ' + str(t))

    @reg(E, 'std::result::Result::ok')
    def res_ok(E, a, ctx):
        return some(a[0].fields[0]) if a[0].var == 0 else NONE

    @reg(E, 'std::result::Result::err')
    def res_err(E, a, ctx):
        return some(a[0].fields[0]) if a[0].var == 1 else NONE

    @reg(E, 'std::option::Option::ok_or')
    def ok_or(E, a, ctx):
        return ok(a[0].fields[0]) if a[0].var == 1 else err(a[1])

    @reg(E, 'std::option::Option::ok_or_else')
    def ok_or_else(E, a, ctx):
        if a[0].var == 1:
            return ok(a[0].fields[0])
        r = yield from call_closure(E, a[1], [])
        return err(r)

    @reg_re(E, r'^std::(option::Option|result::Result)::map_or$')
    def map_or(E, a, ctx):
        v = a[0]
        hit = (v.var == 1) if v.ty == 'Option' else (v.var == 0)
        if not hit:
            return a[1]
        r = yield from call_closure(E, a[2], [v.fields[0]])
        return r

    @reg_re(E, r'^std::(option::Option|result::Result)::map_or_else$')
    def map_or_else(E, a, ctx):
        v = a[0]
        hit = (v.var == 1) if v.ty == 'Option' else (v.var == 0)
        if hit:
            r = yield from call_closure(E, a[2], [v.fields[0]])
        else:
            r = yield from call_closure(E, a[1], [] if v.ty == 'Option' else [v.fields[0]])
        return r

    @reg_re(E, r'^std::(option::Option::is_some_and|option::Option::is_none_or|result::Result::is_ok_and|result::Result::is_err_and)$')
    def is_and(E, a, ctx):
        v = a[0]
        nm = strip(ctx.callee).split('::')[-1]
        hit = {'is_some_and': v.var == 1, 'is_ok_and': v.var == 0, 'is_err_and': v.var == 1, 'is_none_or': v.var == 1}[nm]
        if not hit:
            return z3.BoolVal(nm == 'is_none_or')
        r = yield from call_closure(E, a[1], [v.fields[0]])
        return r

    @reg(E, 'std::option::Option::or')
    def opt_or(E, a, ctx):
        return a[0] if a[0].var == 1 else a[1]

    @reg(E, 'std::option::Option::and')
    def opt_and(E, a, ctx):
        return a[1] if a[0].var == 1 else NONE

    @reg(E, 'std::option::Option::or_else')
    def opt_or_else(E, a, ctx):
        if a[0].var == 1:
            return a[0]
        r = yield from call_closure(E, a[1], [])
        return r

    @reg(E, 'std::option::Option::filter')
    def opt_filter(E, a, ctx):
        if a[0].var == 0:
            return NONE
        c = E.alloc(a[0].fields[0])
        r = yield from call_closure(E, a[1], [Ref(c)])
        return a[0] if E.decide(r) else NONE

    @reg_re(E, r'^std::(option::Option|result::Result)::(as_ref|as_mut|as_deref|as_deref_mut)$')
    def as_ref(E, a, ctx):
        r = a[0]
        v = E.load(r)
        if v.ty == 'Option':
            return some(payload_ref(r, 'Some')) if v.var == 1 else NONE
        return ok(payload_ref(r, 'Ok')) if v.var == 0 else err(payload_ref(r, 'Err'))

    @reg_re(E, r'^std::option::Option::(copied|cloned)$')
    def opt_copied(E, a, ctx):
        v = a[0]
        return some(_ld(E, v.fields[0])) if v.var == 1 else NONE

    @reg(E, 'std::option::Option::take')
    def opt_take(E, a, ctx):
        v = E.load(a[0])
        E.store(a[0], NONE)
        return v

    @reg(E, 'std::option::Option::replace', 'std::option::Option::insert')
    def opt_replace(E, a, ctx):
        v = E.load(a[0])
        E.store(a[0], some(a[1]))
        return v if ctx.callee.endswith('replace') else payload_ref(a[0], 'Some')

    @reg(E, 'std::option::Option::flatten')
    def opt_flatten(E, a, ctx):
        return a[0].fields[0] if a[0].var == 1 else NONE

    @reg(E, 'std::option::Option::zip')
    def opt_zip(E, a, ctx):
        if a[0].var == 1 and a[1].var == 1:
            return some(Agg('tuple', [a[0].fields[0], a[1].fields[0]]))
        return NONE

    @reg(E, 'std::result::Result::unwrap_err', 'std::result::Result::expect_err')
    def unwrap_err(E, a, ctx):
        if a[0].var == 0:
            raise Panic('Result::unwrap_err on Ok')
        return a[0].fields[0]

    @reg(E, 'std::result::Result::or')
    def res_or(E, a, ctx):
        return a[0] if a[0].var == 0 else a[1]

    @reg(E, 'std::result::Result::or_else')
    def res_or_else(E, a, ctx):
        if a[0].var == 0:
            return a[0]
        r = yield from call_closure(E, a[1], [a[0].fields[0]])
        return r

    @reg(E, 'std::result::Result::and')
    def res_and(E, a, ctx):
        return a[1] if a[0].var == 0 else a[0]

    @reg_re(E, r'^bool::(then|then_some)$')
    def bool_then(E, a, ctx):
        if not E.decide(a[0]):
            return NONE
        if ctx.callee.split('::')[-1].startswith('then_some'):
            return some(a[1])
        r = yield from call_closure(E, a[1], [])
        return some(r)

    # ------------------------------------------------------------------ mem
    @reg(E, 'std::mem::replace', 'core::mem::replace')
    def mem_replace(E, a, ctx):
        old = E.load(a[0])
        E.store(a[0], a[1])
        return old

    @reg(E, 'std::mem::swap', 'core::mem::swap')
    def mem_swap(E, a, ctx):
        x, y = E.load(a[0]), E.load(a[1])
        E.store(a[0], y)
        E.store(a[1], x)
        return UNIT

    @reg(E, 'std::mem::take', 'core::mem::take')
    def mem_take(E, a, ctx):
        old = E.load(a[0])
        if isinstance(old, Enum) and old.ty == 'Option':
            E.store(a[0], NONE)
        elif z3.is_bv(old):
            E.store(a[0], BV(0, old.size()))
        elif z3.is_bool(old):
            E.store(a[0], z3.BoolVal(False))
        elif isinstance(old, Agg) and old.ty == 'Vec':
            E.store(a[0], Agg('Vec', []))
        else:
            raise Unsupported('mem::take of ' + repr(old))
        return old

    @reg(E, 'std::mem::drop', 'core::mem::drop', 'drop')
    def mem_drop(E, a, ctx):
        th = ctx.thread
        todo = []
        E._collect_drops(a[0], None, todo, 0)
        for kind, obj, r in todo:
            if kind == 'guard':
                obj.release(E, th)
        return UNIT

    # ------------------------------------------------------------------ integers
    @reg_re(E, r'^core::num::(<impl \w+>::)?(min|max)$')
    def int_minmax(E, a, ctx):
        nm = strip(ctx.callee).split('::')[-1]
        c = z3.ULE(a[0], a[1])
        return z3.If(c, a[0], a[1]) if nm == 'min' else z3.If(c, a[1], a[0])

    @reg_re(E, r'^<[iu](8|16|32|64|128|size) as (Ord|PartialOrd)>::(min|max|lt|le|gt|ge)$')
    def ord_minmax(E, a, ctx):
        nm = strip(ctx.callee).split('::')[-1]
        x, y = _ld(E, a[0]), _ld(E, a[1])
        c = z3.ULE(x, y)
        if nm == 'min':
            return z3.If(c, x, y)
        if nm == 'max':
            return z3.If(c, y, x)
        return {'lt': z3.ULT, 'le': z3.ULE, 'gt': z3.UGT, 'ge': z3.UGE}[nm](x, y)

    @reg_re(E, r'^<[iu](8|16|32|64|128|size) as (Ord|PartialOrd)>::(cmp|partial_cmp)$')
    def ord_cmp(E, a, ctx):
        x, y = _ld(E, a[0]), _ld(E, a[1])
        if E.decide(z3.ULT(x, y)):
            r = Enum('Ordering', -1)
        elif E.decide(x == y):
            r = Enum('Ordering', 0)
        else:
            r = Enum('Ordering', 1)
        return some(r) if ctx.callee.endswith('partial_cmp') else r

    @reg_re(E, r'^<[iu](8|16|32|64|128|size) as PartialEq>::(eq|ne)$')
    def int_eq(E, a, ctx):
        x, y = _ld(E, a[0]), _ld(E, a[1])
        return (x == y) if ctx.callee.endswith('eq') else (x != y)

    @reg_re(E, r'^core::num::(<impl \w+>::)?abs_diff$')
    def abs_diff(E, a, ctx):
        return z3.If(z3.UGE(a[0], a[1]), a[0] - a[1], a[1] - a[0])

    @reg_re(E, r'^core::num::(<impl \w+>::)?(checked|wrapping|saturating)_(div|rem)$')
    def int_div(E, a, ctx):
        nm = strip(ctx.callee).split('::')[-1]
        mode, op = nm.split('_')
        zero = a[1] == 0
        r = z3.UDiv(a[0], a[1]) if op == 'div' else z3.URem(a[0], a[1])
        if mode == 'checked':
            return NONE if E.decide(zero) else some(r)
        if E.decide(zero):
            raise Panic('division by zero')
        return r

    @reg_re(E, r'^<([iu](?:8|16|32|64|128|size)) as (From|Into)<([iu](?:8|16|32|64|128|size)|bool)>>::(from|into)$')
    def int_from(E, a, ctx):
        m = re.match(r'^<(\w+) as (From|Into)<(\w+)>>', strip(ctx.callee))
        dst = m.group(1) if m.group(2) == 'From' else m.group(3)
        v = a[0]
        if z3.is_bool(v):
            v = z3.If(v, BV(1, 8), BV(0, 8))
        n = W[dst]
        return z3.ZeroExt(n - v.size(), v) if v.size() < n else (z3.Extract(n - 1, 0, v) if v.size() > n else v)

    @reg_re(E, r'^<([iu](?:8|16|32|64|128|size)) as (TryFrom|TryInto)<([iu](?:8|16|32|64|128|size))>>::(try_from|try_into)$')
    def int_try_from(E, a, ctx):
        m = re.match(r'^<(\w+) as (TryFrom|TryInto)<(\w+)>>', strip(ctx.callee))
        dst = m.group(1) if m.group(2) == 'TryFrom' else m.group(3)
        v = a[0]
        n = W[dst]
        if v.size() <= n:
            return ok(z3.ZeroExt(n - v.size(), v) if v.size() < n else v)
        fits = z3.Extract(v.size() - 1, n, v) == 0
        if E.decide(fits):
            return ok(z3.Extract(n - 1, 0, v))
        return err(Opaque('TryFromIntError'))

    @reg_re(E, r'^core::num::(<impl \w+>::)?(from_be_bytes|to_be_bytes)$')
    def be_bytes(E, a, ctx):
        if ctx.callee.split('::')[-1].startswith('to_be'):
            v = a[0]
            n = v.size() // 8
            return Agg('array', [z3.Extract(8 * (n - i) - 1, 8 * (n - i - 1), v) for i in range(n)])
        return z3.Concat(*a[0].fields) if len(a[0].fields) > 1 else a[0].fields[0]

    @reg_re(E, r'^core::num::(<impl \w+>::)?is_power_of_two$')
    def is_pow2(E, a, ctx):
        return z3.And(a[0] != 0, (a[0] & (a[0] - 1)) == 0)

    # ------------------------------------------------------------------ slices / arrays / Vec: iteration and search
    def seq_items(E, x):
        """(list of element refs-or-values, base ref or None) of a slice / array / Vec value or reference"""
        base = x if isinstance(x, Ref) else None
        v = _ld(E, x)
        if isinstance(v, Ref):
            base = v
            v = E.load(v)
        if isinstance(v, Agg) and v.ty in ('array', 'Vec', 'tuple'):
            return v, base
        raise Unsupported(f'sequence of {v!r}')

    def elem_refs(E, v, base):
        out = []
        for i, x in enumerate(v.fields):
            out.append(Ref(base.cell, base.path + (('field', i),)) if base is not None else Ref(E.alloc(x)))
        return out

    @reg_re(E, r'^(core::slice::<impl \[.*\]>|core::slice|core::array::<impl \[.*\]>|core::array|Vec)::(iter|iter_mut)$')
    def seq_iter(E, a, ctx):
        v, base = seq_items(E, a[0])
        return Agg('SeqIter', [elem_refs(E, v, base), 0, True])

    @reg_re(E, r'^<(&\[.*\]|&Vec<.*>|&mut Vec<.*>|&mut \[.*\]) as IntoIterator>::into_iter$')
    def seq_into_iter_ref(E, a, ctx):
        v, base = seq_items(E, a[0])
        return Agg('SeqIter', [elem_refs(E, v, base), 0, True])

    @reg_re(E, r'^<(\[.*\]|Vec<.*>) as IntoIterator>::into_iter$')
    def seq_into_iter_val(E, a, ctx):
        v, base = seq_items(E, a[0])
        return Agg('SeqIter', [list(v.fields), 0, False])

    @reg_re(E, r'^<(std::slice::Iter(Mut)?<.*>|core::slice::Iter(Mut)?<.*>|std::vec::IntoIter<.*>|core::array::IntoIter<.*>|std::array::IntoIter<.*>) as Iterator>::next$')
    def seq_next(E, a, ctx):
        it = E.load(a[0])
        if it.ty != 'SeqIter':
            raise Unsupported('next on ' + it.ty)
        items, i, _ = it.fields
        if i >= len(items):
            return NONE
        E.store(a[0], Agg('SeqIter', [items, i + 1, it.fields[2]]))
        return some(items[i])

    def iter_source(E, it):
        it = _ld(E, it)
        if isinstance(it, Agg) and it.ty == 'SeqIter':
            return it.fields[0][it.fields[1]:]
        if isinstance(it, Agg) and it.ty == 'SliceIter':
            v, base = seq_items(E, it.fields[0])
            return elem_refs(E, v, base)
        raise Unsupported(f'iterator source {it!r}')

    @reg_re(E, r'^<.* as Iterator>::(any|all)$')
    def it_any(E, a, ctx):
        nm = strip(ctx.callee).split('::')[-1]
        for x in iter_source(E, a[0]):
            r = yield from call_closure(E, a[1], [x])
            if E.decide(r) == (nm == 'any'):
                return z3.BoolVal(nm == 'any')
        return z3.BoolVal(nm != 'any')

    @reg_re(E, r'^<.* as Iterator>::(find|position)$')
    def it_find(E, a, ctx):
        nm = strip(ctx.callee).split('::')[-1]
        for i, x in enumerate(iter_source(E, a[0])):
            if nm == 'find':
                c = E.alloc(x)
                r = yield from call_closure(E, a[1], [Ref(c)])
            else:
                r = yield from call_closure(E, a[1], [x])
            if E.decide(r):
                return some(x if nm == 'find' else BV(i))
        return NONE

    @reg_re(E, r'^<.* as Iterator>::count$')
    def it_count(E, a, ctx):
        return BV(len(iter_source(E, a[0])))

    @reg_re(E, r'^(core::slice::<impl \[.*\]>|core::slice|Vec)::contains$')
    def seq_contains(E, a, ctx):
        v, base = seq_items(E, a[0])
        needle = _ld(E, a[1])
        for x in v.fields:
            if isinstance(x, Enum) and isinstance(needle, Enum):
                if x.var == needle.var:
                    return z3.BoolVal(True)
                continue
            if z3.is_expr(x) and z3.is_expr(needle) and E.decide(x == needle):
                return z3.BoolVal(True)
        return z3.BoolVal(False)

    @reg_re(E, r'^(core::slice::<impl \[.*\]>|core::slice|Vec)::(len|is_empty)$')
    def seq_len(E, a, ctx):
        from .bytesm import Buf, Rope, VTerm, blen
        v0 = E.load(a[0]) if isinstance(a[0], Ref) else a[0]
        if isinstance(v0, (Buf, Rope, VTerm)):
            n = blen(E, v0)
            return (n == 0) if ctx.callee.endswith('is_empty') else n
        v, base = seq_items(E, a[0])
        if ctx.callee.endswith('is_empty'):
            return z3.BoolVal(len(v.fields) == 0)
        return BV(len(v.fields))

    @reg_re(E, r'^(core::slice::<impl \[.*\]>|core::slice|Vec)::(first|last)$')
    def seq_first(E, a, ctx):
        v, base = seq_items(E, a[0])
        if not v.fields:
            return NONE
        r = elem_refs(E, v, base)
        return some(r[0] if ctx.callee.endswith('first') else r[-1])

    @reg_re(E, r'^(std::ops::|core::ops::)?RangeInclusive::new$')
    def range_incl_new(E, a, ctx):
        return Agg('RangeInclusive', [a[0], a[1]])

    @reg_re(E, r'^(std::ops::|core::ops::)?(RangeInclusive|Range|RangeFrom|RangeTo|RangeToInclusive)::contains$')
    def range_contains(E, a, ctx):
        r = _ld(E, a[0])
        x = _ld(E, a[1])
        kind = ctx.callee.split('::contains')[0].split('::')[-1].split('<')[0]
        f = list(r.fields)
        if kind == 'RangeInclusive':
            return z3.And(z3.UGE(x, f[0]), z3.ULE(x, f[1]))
        if kind == 'Range':
            return z3.And(z3.UGE(x, f[0]), z3.ULT(x, f[1]))
        if kind == 'RangeFrom':
            return z3.UGE(x, f[0])
        if kind == 'RangeTo':
            return z3.ULT(x, f[0])
        return z3.ULE(x, f[0])

    @reg(E, 'Vec::new', 'std::vec::Vec::new', 'Vec::with_capacity')
    def vec_new(E, a, ctx):
        return Agg('Vec', [])

    @reg(E, 'Vec::push')
    def vec_push(E, a, ctx):
        v = E.load(a[0])
        E.store(a[0], Agg('Vec', list(v.fields) + [a[1]]))
        return UNIT

    @reg(E, 'Vec::pop')
    def vec_pop(E, a, ctx):
        v = E.load(a[0])
        if not v.fields:
            return NONE
        E.store(a[0], Agg('Vec', list(v.fields[:-1])))
        return some(v.fields[-1])

    @reg(E, 'Vec::clear')
    def vec_clear(E, a, ctx):
        E.store(a[0], Agg('Vec', []))
        return UNIT

    # ------------------------------------------------------------------ generic clone of plain data
    @reg_re(E, r'^<(std::option::Option<.*>|std::result::Result<.*>|\(.*\)|\[.*\]|Vec<.*>|bool|[iu](8|16|32|64|128|size)) as Clone>::clone$')
    def plain_clone(E, a, ctx):
        return E.load(a[0])

    @reg_re(E, r'^<std::option::Option<.*> as Default>::default$')
    def opt_default(E, a, ctx):
        return NONE

    @reg(E, '<bool as Default>::default')
    def bool_default(E, a, ctx):
        return z3.BoolVal(False)

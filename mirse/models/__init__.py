"""Library models ("stubs").  Every model is part of every claim that uses it; DESIGN.md section 3.3 lists them.

A model is `h(E, args, ctx) -> value` or a generator that may `yield ('call', mir_fn_or_model, args)` to run MIR
(e.g. a closure passed to Result::map) and receives the call's result.
"""
import re


def reg(E, *names, shared=None, enabled=None):
    def deco(h):
        if shared:
            h.shared = shared
        if enabled:
            h.enabled = enabled
        for n in names:
            E.models[n] = h
        return h
    return deco


def reg_re(E, pattern, shared=None, enabled=None):
    def deco(h):
        if shared:
            h.shared = shared
        if enabled:
            h.enabled = enabled
        E.model_res.append((re.compile(pattern), h))
        return h
    return deco


def install(E):
    from . import std, std_more, bytesm, dashmap, atomic, iters, tokio_io
    std.install(E)
    std_more.install(E)
    bytesm.install(E)
    dashmap.install(E)
    atomic.install(E)
    iters.install(E)
    tokio_io.install(E)

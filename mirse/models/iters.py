"""Iterator adaptor models: just enough lazy-iterator semantics for `iter().filter(f).map(g).collect()`,
`slice.iter().map(g).collect()` and `slice.iter().for_each(g)`.  Items are produced one at a time and the
closures run per item in adaptor order, as the real lazy adaptors do."""
import z3
from ..values import *
from . import reg, reg_re
from .std import call_closure
from .dashmap import Guard


def install(E):
    @reg_re(E, r'^<.* as Iterator>::filter$')
    def it_filter(E, a, ctx):
        return Agg('IterFilter', [a[0], a[1]])

    @reg_re(E, r'^<.* as Iterator>::map$')
    def it_map(E, a, ctx):
        return Agg('IterMap', [a[0], a[1]])

    @reg(E, 'core::slice::iter', 'core::slice::<impl [T]>::iter')
    def slice_iter(E, a, ctx):
        v = E.load(a[0]) if isinstance(a[0], Ref) else a[0]
        return Agg('SliceIter', [a[0], v])

    @reg_re(E, r'^core::slice::<impl \[.*\]>::iter$')
    def slice_iter2(E, a, ctx):
        v = E.load(a[0]) if isinstance(a[0], Ref) else a[0]
        return Agg('SliceIter', [a[0], v])

    @reg_re(E, r'^<Vec<.*> as Deref>::deref$')
    def vec_deref(E, a, ctx):
        return a[0]

    @reg(E, 'Vec::len')
    def vec_len(E, a, ctx):
        return BV(len(E.load(a[0]).fields))

    def source_items(E, it, th):
        """generator over (item value, finish callback) of the innermost source"""
        if it.ty == 'DashIter':
            m = it.fields[0]
            E.events.append(('map.iter', th.tid))
            for s in m.slots:
                if E.decide(E.heap[s.present_cell]):
                    g = Guard('r', m, s, th)
                    m.readers[th] = m.readers.get(th, 0) + 1
                    th.guards.append(g)
                    yield Agg('RefMulti', [s]), g
        elif it.ty == 'SliceIter':
            base = it.fields[0]
            v = it.fields[1]
            for i, _x in enumerate(v.fields):
                if isinstance(base, Ref):
                    yield Ref(base.cell, base.path + (('field', i),)), None
                else:
                    yield Ref(E.alloc(v.fields[i])), None
        else:
            raise Unsupported('iterator source ' + it.ty)

    def drive(E, it, th, sink):
        """run the adaptor chain `it`, calling sink(item) (a generator function) for every produced item"""
        chain = []
        cur = it
        while cur.ty in ('IterFilter', 'IterMap'):
            chain.append(cur)
            cur = cur.fields[0]
        chain.reverse()
        if cur.ty == 'DashIter' and E.multi:
            yield ('park', 'map.iter', None)
        for item, guard in source_items(E, cur, th):
            keep = True
            val = item
            for ad in chain:
                if ad.ty == 'IterFilter':
                    c = E.alloc(val)
                    r = yield from call_closure(E, ad.fields[1], [Ref(c)])
                    if not E.decide(r):
                        keep = False
                        break
                else:
                    val = yield from call_closure(E, ad.fields[1], [val])
            if guard is not None:
                guard.release(E, th)
            if keep:
                yield from sink(val)

    @reg_re(E, r'^<.* as Iterator>::collect$')
    def it_collect(E, a, ctx):
        out = []

        def sink(v):
            out.append(v)
            return
            yield
        yield from drive(E, a[0], ctx.thread, sink)
        return Agg('Vec', out)

    @reg_re(E, r'^<.* as Iterator>::for_each$')
    def it_for_each(E, a, ctx):
        clo = a[1]

        def sink(v):
            yield from call_closure(E, clo, [v])
        yield from drive(E, a[0], ctx.thread, sink)
        return UNIT

"""tokio leaf futures and synchronisation as models (the in-crate async fns are executed from their own MIR).

Socket: the connection's inbound stream is the z3 array WIRE with a symbolic total length `total`; `rpos` bytes have
been delivered.  A read delivers n bytes with 1 <= n <= min(available, spare capacity, or 64 when the buffer is full)
(tokio 1.36 ReadBuf::poll + bytes 1.5 chunk_mut), or 0 at orderly EOF, or Err, or stays Pending for ever when the peer
is silent (`end` = 'eof' | 'error' | 'silent').  Nothing is modelled of the kernel beyond "a read returns a non-empty
prefix of what was sent".
"""
import re, z3
from ..values import *
from . import reg, reg_re
from .bytesm import Buf, Rope, WIRE, blen, as_parts


class Sock:
    __slots__ = ('rpos', 'total', 'end', 'out', 'closed', 'ty', 'wfail', 'pending', 'wslow', 'wfull')

    def __init__(self, rpos, total, end='eof', out=(), closed=False, wfail=False, pending=(), wslow=False, wfull=False):
        self.rpos = rpos
        self.total = total
        self.end = end
        self.out = tuple(out)
        self.closed = closed
        self.wfail = wfail
        self.pending = tuple(pending)     # bytes accepted by a BufWriter in front of the socket but not flushed yet
        self.wslow = wslow                # the peer may stop reading: from some write on the send buffer is full, for ever
        self.wfull = wfull
        self.ty = 'Sock'

    def upd(self, **kw):
        s = Sock(self.rpos, self.total, self.end, self.out, self.closed, self.wfail, self.pending, self.wslow, self.wfull)
        for k, v in kw.items():
            setattr(s, k, v)
        return s

    def __repr__(self):
        return f'Sock(rpos={z3.simplify(self.rpos)}, out={len(self.out)}, closed={self.closed})'


class Permit:
    def __init__(self, semref):
        self.semref = semref
        self.ty = 'SemaphorePermit'
        self.live = True

    def release(self, E, th):
        if self.live:
            self.live = False
            s = E.load(self.semref)
            E.store(self.semref, Agg('Semaphore', [s.fields[0] + 1]))
            E.events.append(('sem.release_on_drop',))


def install(E):
    E.tasks = []

    @reg_re(E, r'^<\{async (fn body of .*|block@.*)\} as Future>::poll$')
    def coro_poll(E, a, ctx):
        pin = a[0]
        st = E.load(pin.fields[0])
        if isinstance(st, Coro):
            r = yield ('call', st.fn, a)
            return r
        h = getattr(st, 'poll', None) or POLLS.get(getattr(st, 'ty', None))
        if h is None and getattr(st, 'ty', None) == 'AcceptFut' and getattr(E, 'accept_poll', None):
            h = E.accept_poll
        if h is None and getattr(st, 'ty', None) == 'TickFut' and getattr(E, 'timer_tick_poll', None):
            h = E.timer_tick_poll
        if h is None:
            raise Unsupported(f'poll of {st!r}')
        return h(E, st, pin.fields[0], ctx)

    POLLS = {}

    # ------------------------------------------------------------------ reads
    @reg_re(E, r'^<(tokio::net::TcpStream|tokio::io::BufWriter<tokio::net::TcpStream>|BufWriter<tokio::net::TcpStream>|tokio::io::BufStream<tokio::net::TcpStream>) as AsyncReadExt>::read_buf$')
    def read_buf(E, a, ctx):
        return Agg('ReadBuf', [a[0], a[1]])

    @reg_re(E, r'^(tokio::io::)?Buf(Writer|Stream)(::<.*>)?::new$')
    def bufwriter_new(E, a, ctx):
        return a[0]

    @reg_re(E, r'^(tokio::io::)?Buf(Writer|Stream)(::<.*>)?::(get_mut|get_ref|into_inner)$')
    def bufwriter_inner(E, a, ctx):
        return a[0]

    @reg_re(E, r"^<tokio::io::util::read_buf::ReadBuf<.*> as Future>::poll$")
    def readbuf_poll(E, a, ctx):
        rb = E.load(a[0].fields[0])
        sref, bref = rb.fields
        return read_core(E, sref, bref)

    def read_core(E, sref, bref):
        sock = E.load(sref)
        buf = E.load(bref)
        E.nread = getattr(E, 'nread', 0) + 1
        if E.nread > getattr(E, 'max_reads', 4):
            # stated bound of the socket-level harnesses: deliveries needing more reads are outside the claim
            E.events.append(('read-bound',))
            raise Infeasible()
        remaining = sock.total - sock.rpos
        if E.decide(remaining == 0):
            E.events.append(('read', 'end', sock.end))
            if sock.end == 'eof':
                return ready(ok(BV(0)))
            if sock.end == 'error':
                return ready(err(Agg('io::Error', [Enum('ErrorKind', 'ConnectionReset'), None])))
            return PENDING
        n = E.fresh('n', 64)
        E.assume(z3.UGE(n, 1), z3.ULE(n, remaining))
        if E.nread == getattr(E, 'max_reads', 4) and getattr(E, 'last_read_takes_all', True):
            # the last read inside the bound delivers everything that is left (if it fits): deliveries in fewer, larger
            # reads are covered by the earlier reads being arbitrary; deliveries needing more reads are outside the bound
            cap0 = buf.cap
            if cap0 is not None:
                sp = cap0 - blen(E, buf)
                E.assume(z3.Or(n == remaining, z3.And(sp != 0, n == sp)))
            else:
                E.assume(n == remaining)
        cap = buf.cap
        ln = blen(E, buf)
        if cap is not None:
            spare = cap - ln
            E.assume(z3.If(spare == 0, z3.ULE(n, cap + 64), z3.ULE(n, spare)))
        empty = isinstance(buf, Rope) and not buf.parts
        if not empty and isinstance(buf, Buf) and z3.is_true(z3.simplify(buf.len == 0)):
            empty = True
        if not empty and isinstance(buf, Buf):
            if E.decide(buf.len == 0):
                empty = True
        if empty:
            nb = Buf(WIRE, sock.rpos, n, cap)
        else:
            if not isinstance(buf, Buf):
                raise Unsupported('read into a non-empty rope')
            # the connection buffer always ends where the next unread wire byte is; checked, not assumed
            if E.check(buf.off + buf.len != sock.rpos) is not None:
                raise Unsupported('read buffer is not contiguous with the wire position')
            ncap = cap
            if cap is not None:
                ncap = z3.If(cap - ln == 0, z3.If(z3.UGE(n, 64), ln + n, cap + 64), cap)
            nb = Buf(buf.base, buf.off, buf.len + n, ncap)
        E.store(bref, nb)
        E.store(sref, sock.upd(rpos=sock.rpos + n))
        E.events.append(('read', n, ln))       # ln = bytes already held by the buffer that is read into
        return ready(ok(n))

    # non-blocking read: what the awaited read would deliver now, or WouldBlock when nothing has arrived yet (the peer's bytes,
    # its FIN or its RST may all still be on their way)
    @reg(E, 'tokio::net::TcpStream::try_read_buf', 'TcpStream::try_read_buf')
    def try_read_buf(E, a, ctx):
        sref, bref = a[0], a[1]
        if E.choose(2, 'arrived') == 1:
            E.events.append(('try_read', 'wouldblock'))
            return err(Agg('io::Error', [Enum('ErrorKind', 'WouldBlock'), None]))
        r = read_core(E, sref, bref)
        if r is PENDING or (isinstance(r, Enum) and r.var == 1):
            # a silent peer: nothing will ever arrive
            E.events.append(('try_read', 'wouldblock'))
            return err(Agg('io::Error', [Enum('ErrorKind', 'WouldBlock'), None]))
        return r.fields[0]

    # ------------------------------------------------------------------ writes / shutdown
    @reg_re(E, r'^<(tokio::net::TcpStream|tokio::io::BufWriter<tokio::net::TcpStream>|BufWriter<tokio::net::TcpStream>|tokio::io::BufStream<tokio::net::TcpStream>) as AsyncWriteExt>::write_all$')
    def write_all(E, a, ctx):
        return Agg('WriteAll', [a[0], a[1], 'Buf' in ctx.callee.split(' as ')[0]])

    @reg_re(E, r'^<(tokio::net::TcpStream|tokio::io::BufWriter<tokio::net::TcpStream>|BufWriter<tokio::net::TcpStream>|tokio::io::BufStream<tokio::net::TcpStream>) as AsyncWriteExt>::flush$')
    def flush(E, a, ctx):
        return Agg('Flush', [a[0]])

    @reg_re(E, r"^<tokio::io::util::flush::Flush<.*> as Future>::poll$")
    def flush_poll(E, a, ctx):
        w = E.load(a[0].fields[0])
        sref = w.fields[0]
        sock = E.load(sref)
        E.store(sref, sock.upd(out=sock.out + sock.pending, pending=()))
        E.events.append(('flush',))
        return ready(ok(UNIT))

    @reg_re(E, r"^<tokio::io::util::write_all::WriteAll<.*> as Future>::poll$")
    def writeall_poll(E, a, ctx):
        w = E.load(a[0].fields[0])
        sref, data = w.fields[0], w.fields[1]
        buffered = len(w.fields) > 2 and w.fields[2]
        sock = E.load(sref)
        d = E.load(data) if isinstance(data, Ref) else data
        if sock.wfail and E.choose(2, 'write') == 1:
            E.events.append(('write', 'fail'))
            return ready(err(Agg('io::Error', [Enum('ErrorKind', 'BrokenPipe'), None])))
        if sock.wfull or (sock.wslow and not buffered and E.choose(2, 'sendbuf') == 1):
            # the peer has stopped reading and the send buffer is full: the write suspends (and is never woken in this model)
            E.store(sref, sock.upd(wfull=True))
            E.events.append(('write', 'blocked'))
            return PENDING
        if buffered:
            # a BufWriter keeps small writes until flush()/shutdown(); dropped unflushed they are lost
            E.store(sref, sock.upd(pending=sock.pending + (d,)))
            E.events.append(('write', 'buffered', d))
        else:
            E.store(sref, sock.upd(out=sock.out + (d,)))
            E.events.append(('write', d))
        return ready(ok(UNIT))

    # readiness + non-blocking write (TcpStream::writable / try_write)
    @reg(E, 'tokio::net::TcpStream::writable', 'TcpStream::writable')
    def writable(E, a, ctx):
        return Agg('Writable', [a[0]])

    def writable_poll(E, st, place, ctx):
        sock = E.load(st.fields[0])
        if sock.wfull:
            E.events.append(('writable', 'blocked'))
            return PENDING
        return ready(ok(UNIT))
    POLLS['Writable'] = writable_poll

    @reg(E, 'tokio::net::TcpStream::try_write', 'TcpStream::try_write')
    def try_write(E, a, ctx):
        sref = a[0]
        sock = E.load(sref)
        d = E.load(a[1]) if isinstance(a[1], Ref) else a[1]
        if sock.wfull or (sock.wslow and E.choose(2, 'sendbuf') == 1):
            E.store(sref, sock.upd(wfull=True))
            E.events.append(('try_write', 'wouldblock'))
            return err(Agg('io::Error', [Enum('ErrorKind', 'WouldBlock'), None]))
        E.store(sref, sock.upd(out=sock.out + (d,)))
        E.events.append(('write', d))
        return ok(blen(E, d))

    # a single write(): the kernel may accept any non-empty prefix of the buffer
    @reg_re(E, r'^<(tokio::net::TcpStream|tokio::io::BufWriter<tokio::net::TcpStream>|BufWriter<tokio::net::TcpStream>|tokio::io::BufStream<tokio::net::TcpStream>) as AsyncWriteExt>::write$')
    def write_once(E, a, ctx):
        return Agg('WriteOnce', [a[0], a[1]])

    @reg_re(E, r"^<tokio::io::util::write::Write<.*> as Future>::poll$")
    def write_poll(E, a, ctx):
        w = E.load(a[0].fields[0])
        sref, data = w.fields
        sock = E.load(sref)
        d = E.load(data) if isinstance(data, Ref) else data
        ln = blen(E, d)
        n = E.fresh('written', 64)
        E.assume(z3.UGE(n, 1), z3.ULE(n, ln))
        if E.decide(n == ln):
            E.store(sref, sock.upd(out=sock.out + (d,)))
            E.events.append(('write', d))
        else:
            # only the first n bytes reach the peer
            E.store(sref, sock.upd(out=sock.out + (Rope(as_parts(E, d) + [('cut', n)]),)))
            E.events.append(('write', 'short', n))
        return ready(ok(n))

    @reg_re(E, r'^<(tokio::net::TcpStream|tokio::io::BufWriter<tokio::net::TcpStream>|BufWriter<tokio::net::TcpStream>|tokio::io::BufStream<tokio::net::TcpStream>) as AsyncWriteExt>::shutdown$')
    def shutdown(E, a, ctx):
        return Agg('Shutdown', [a[0]])

    @reg_re(E, r"^<tokio::io::util::shutdown::Shutdown<.*> as Future>::poll$")
    def shutdown_poll(E, a, ctx):
        w = E.load(a[0].fields[0])
        sref = w.fields[0]
        sock = E.load(sref)
        E.store(sref, sock.upd(closed=True, out=sock.out + sock.pending, pending=()))
        E.events.append(('shutdown',))
        return ready(ok(UNIT))

    # ------------------------------------------------------------------ timeout
    @reg(E, 'timeout', 'tokio::time::timeout')
    def timeout(E, a, ctx):
        return Agg('Timeout', [a[1], a[0]])

    @reg_re(E, r'^<tokio::time::Timeout<.*> as Future>::poll$')
    def timeout_poll(E, a, ctx):
        place = a[0].fields[0]
        inner = Ref(place.cell, place.path + (('field', 0),))
        st = E.load(inner)
        if not isinstance(st, Coro):
            raise Unsupported('Timeout over ' + repr(st))
        r = yield ('call', st.fn, [Agg('Pin', [inner]), a[1]])
        if r.var == 0:
            return ready(ok(r.fields[0]))
        # Pending: in this model a future only stays pending when the peer is silent for ever -> the timer fires
        E.events.append(('timeout',))
        return ready(err(Opaque('Elapsed')))

    # ------------------------------------------------------------------ semaphore / spawn
    @reg(E, 'Semaphore::new', 'tokio::sync::Semaphore::new')
    def sem_new(E, a, ctx):
        E.events.append(('sem.new', a[0]))
        return Agg('Semaphore', [a[0]])

    @reg(E, 'Semaphore::acquire')
    def sem_acquire(E, a, ctx):
        return Agg('SemAcquire', [a[0]])

    def sem_acquire_poll(E, st, place, ctx):
        semref = st.fields[0]
        s = E.load(semref)
        if E.decide(z3.UGT(s.fields[0], 0)):
            E.store(semref, Agg('Semaphore', [s.fields[0] - 1]))
            E.events.append(('sem.acquire',))
            return ready(ok(Permit(semref)))
        E.events.append(('sem.wait',))
        return PENDING
    POLLS['SemAcquire'] = sem_acquire_poll

    @reg(E, 'SemaphorePermit::forget')
    def permit_forget(E, a, ctx):
        a[0].live = False
        E.events.append(('sem.forget',))
        return UNIT

    @reg(E, 'Semaphore::add_permits')
    def add_permits(E, a, ctx):
        s = E.load(a[0])
        E.store(a[0], Agg('Semaphore', [s.fields[0] + a[1]]))
        E.events.append(('sem.add_permits', a[1]))
        return UNIT

    @reg(E, 'tokio::spawn', 'Runtime::spawn')
    def spawn(E, a, ctx):
        fut = a[-1]
        E.tasks.append(fut)
        E.events.append(('spawn', len(E.tasks) - 1))
        return Opaque('JoinHandle')

    @reg(E, 'tokio::net::TcpStream::set_nodelay', 'tokio::net::TcpStream::set_linger')
    def sockopt(E, a, ctx):
        return ok(UNIT)

    @reg(E, 'tokio::net::TcpStream::peer_addr', 'tokio::net::TcpStream::local_addr')
    def peer_addr(E, a, ctx):
        # getpeername on an accepted socket fails when the peer has already reset the connection
        if getattr(E, 'peer_addr_may_fail', False) and E.choose(2, 'peer_addr') == 1:
            E.events.append(('peer_addr', 'fail'))
            return err(Agg('io::Error', [Enum('ErrorKind', 'NotConnected'), None]))
        return ok(Opaque('addr'))

    def reset(E):
        E.tasks = []
        E.nread = 0
    E.hooks.setdefault('reset', []).append(reset)

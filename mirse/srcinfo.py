"""Struct field order, enum variant tables and `impl at file:line` -> Self type, scraped from the
snapshot's Rust sources (the MIR text carries field *indices* and impl *locations* only)."""
import re, glob, os


def strip_comments(s):
    s = re.sub(r'//[^\n]*', '', s)
    s = re.sub(r'/\*.*?\*/', '', s, flags=re.S)
    return s


def _split_fields(body):
    out = []
    d = 0
    cur = []
    for c in body:
        if c in '(<[{':
            d += 1
        elif c in ')>]}':
            d -= 1
        if c == ',' and d == 0:
            out.append(''.join(cur))
            cur = []
        else:
            cur.append(c)
    if ''.join(cur).strip():
        out.append(''.join(cur))
    return out


def scan(crate_root):
    """crate_root = .../memcrs/src ; keys of impls are relative to the workspace root like the MIR prints them"""
    structs = {}
    enums = {}
    impls = {}
    ws = os.path.dirname(os.path.dirname(crate_root))
    for p in glob.glob(os.path.join(crate_root, '**', '*.rs'), recursive=True):
        raw = open(p).read()
        rel = os.path.relpath(p, ws)
        lines = raw.split('\n')
        for i, ln in enumerate(lines, 1):
            m = re.match(r'\s*(?:unsafe\s+)?impl(<[^>]*>)?\s+(?:(.+?)\s+for\s+)?([A-Za-z_][\w:]*)', ln)
            if m:
                tr = m.group(2)
                if tr:
                    tr = re.sub(r'<.*$', '', tr).split('::')[-1]
                impls[(rel, i)] = (tr, m.group(3).split('::')[-1])
            md = re.match(r'\s*#\[derive\((.*)\)\]', ln)
            if md:
                tyname = None
                for nx in lines[i:i + 8]:
                    mt = re.match(r'\s*(?:pub(?:\([^)]*\))?\s+)?(?:struct|enum)\s+(\w+)', nx)
                    if mt:
                        tyname = mt.group(1)
                        break
                for tm in re.finditer(r'\w+', md.group(1)):
                    col = ln.index('derive(') + 7 + tm.start() + 1
                    impls[(rel, i, col)] = (tm.group(0), tyname)
        s = strip_comments(raw)
        for m in re.finditer(r'\bstruct\s+(\w+)\s*(?:<[^>{]*>)?\s*\{([^}]*)\}', s):
            fields = []
            for f in _split_fields(m.group(2)):
                f = re.sub(r'#\[[^\]]*\]', '', f).strip()
                mm = re.match(r'(?:pub(?:\([^)]*\))?\s+)?(\w+)\s*:', f)
                if mm:
                    fields.append(mm.group(1))
            structs[m.group(1)] = fields
        for m in re.finditer(r'\benum\s+(\w+)\s*\{([^}]*)\}', s):
            vs = []
            nxt = 0
            for v in _split_fields(m.group(2)):
                v = re.sub(r'#\[[^\]]*\]', '', v).strip()
                if not v:
                    continue
                mm = re.match(r'(\w+)\s*(?:\([^)]*\))?\s*(?:=\s*(\S+))?', v)
                if not mm:
                    continue
                if mm.group(2) is not None:
                    nxt = int(mm.group(2), 0)
                vs.append((mm.group(1), nxt))
                nxt += 1
            enums[m.group(1)] = vs
    return structs, enums, impls

"""MIRSE core: a symbolic interpreter for rustc MIR (text form) with z3 deciding every branch.

Stateless exploration: a run is identified by its decision prefix; an undecided branch asks the solver
which sides are feasible, takes one and queues the other prefix; the harness is later re-executed from
the start for every queued prefix.  The interpreter keeps explicit call stacks (one per simulated thread)
so that threads can be parked at calls into shared objects and interleaved by a scheduler whose choices
are decisions like any branch.
"""
import re, time, inspect, z3
from . import mirparse, srcinfo
from .mirparse import parsed_block
from .values import *


def strip_generics(name):
    """remove `::<...>` turbofish segments (nested <>, `->` inside are handled)"""
    out = []
    depth = 0
    i = 0
    n = len(name)
    while i < n:
        if depth == 0 and name.startswith('::<', i):
            depth = 1
            i += 3
            continue
        c = name[i]
        if depth:
            if c == '<':
                depth += 1
            elif c == '>' and name[i - 1] not in '-=':
                depth -= 1
        else:
            out.append(c)
        i += 1
    return ''.join(out)


class Frame:
    __slots__ = ('fn', 'locals', 'bb', 'ret_to', 'unwinding', 'pending', 'visits')

    def __init__(self, fn, locals_):
        self.fn = fn
        self.locals = locals_
        self.bb = 'bb0'
        self.ret_to = None      # (dest Ref | None, next bb, unwind bb|None) in *this* frame, set while a callee runs
        self.unwinding = False
        self.pending = None
        self.visits = {}


class GenFrame:
    """a library model written as a Python generator: it `yield`s ('call', fn, args) to run MIR (closures) and
    receives the result; its StopIteration value is the model's return value"""
    __slots__ = ('gen', 'inbox', 'started')

    def __init__(self, gen):
        self.gen = gen
        self.inbox = None
        self.started = False


class Thread:
    def __init__(self, tid, name=''):
        self.tid = tid
        self.name = name
        self.stack = []
        self.result = None
        self.status = 'ready'     # ready | parked | done | panicked
        self.park = None
        self.granted = False
        self.guards = []
        self.panic = None
        self.nops = 0


class Path:
    __slots__ = ('status', 'trace', 'out', 'pc', 'events', 'info', 'stats', 'imprecise')

    def __init__(self, status, trace, out, pc, events, info=None, imprecise=None):
        self.status = status
        self.trace = trace
        self.out = out
        self.pc = pc
        self.events = events
        self.info = info
        self.imprecise = imprecise or []


class Engine:
    def __init__(self, mirpath, crate_src):
        self.fns = mirparse.parse(mirpath)
        self.structs, self.enums, self.impls = srcinfo.scan(crate_src)
        self.by_method = {}
        self.closures_by_loc = {}
        for name, f in self.fns.items():
            m = re.search(r'<impl at ([^:>]+):(\d+):(\d+): \d+:\d+>::(.*)$', name)
            if m:
                key = (m.group(1), int(m.group(2)))
                tr, ty = self.impls.get(key, (None, None))
                if ty is None:
                    tr, ty = self.impls.get((m.group(1), int(m.group(2)), int(m.group(3))), (None, None))
                meth = re.search(r'<impl at [^>]*>::(.*)$', name[name.rfind('<impl at'):]).group(1)
                if ty is not None:
                    if tr:
                        self.by_method.setdefault((f"<{ty} as {tr}>", meth), f)
                        self.by_method.setdefault((ty, meth), f)
                    else:
                        self.by_method[(ty, meth)] = f
            if '{closure#' in name and f.params:
                t = f.locals.get('_1', '')
                for mm in re.finditer(r'\{(?:closure|coroutine|async (?:fn body|block))[^{}]*?@([^{}]*?)\}', t):
                    pass
                mm = re.search(r'\{(closure|coroutine)@([^{}]+)\}', t)
                if mm:
                    self.closures_by_loc.setdefault(mm.group(2), f)
                mm = re.search(r'\{async (fn body of|block@)([^{}]*(?:\{[^{}]*\})?[^{}]*)\}', t)
        self.models = {}
        self.model_res = []
        self.const_cache = {}
        self.stats = {'blocks': 0, 'checks': 0, 'solver_s': 0.0, 'paths': 0, 'runs': 0}
        self.executed = {}       # fn name -> blocks executed (coverage / evidence)
        self.max_blocks_per_run = 200000
        self.loop_bound = 64     # visits of one block in one frame
        self.solver_timeout_ms = 20000
        self.unwind = False
        self.multi = False
        self.seed = 0
        self.hooks = {}
        self.watch = {}
        self.depth_stop = None
        self.frontier_prefixes = []
        from . import models as _m
        _m.install(self)

    # ------------------------------------------------------------------ lookup helpers
    def fn(self, ty, meth):
        f = self.by_method.get((ty, meth))
        if f is None:
            raise KeyError(f'no MIR body for {ty}::{meth}')
        return f

    def fn_named(self, suffix):
        c = [f for n, f in self.fns.items() if n.endswith(suffix)]
        if len(c) != 1:
            raise KeyError(f'{len(c)} bodies match {suffix}')
        return c[0]

    # ------------------------------------------------------------------ exploration driver
    def explore(self, harness, max_paths=None, budget_s=None, prefixes=None):
        work = [list(p) for p in (prefixes or [[]])]
        results = []
        t0 = time.time()
        self.truncated = False
        while work:
            if (max_paths and len(results) >= max_paths) or (budget_s and time.time() - t0 > budget_s):
                self.truncated = True
                break
            prefix = work.pop()
            self._reset(prefix)
            st = 'ok'
            out = None
            info = None
            try:
                out = harness(self)
            except Panic as e:
                st = 'panic'
                info = str(e)
                out = getattr(self, 'panic_out', None)
                if callable(out):
                    out = out()      # the harness' view of the state at the moment of the panic
            except Infeasible:
                st = None
            except Inconclusive as e:
                st = 'inconclusive'
                info = str(e)
            except Deadlock as e:
                st = 'deadlock'
                info = str(e)
            except DepthStop:
                st = None
                self.frontier_prefixes.append(list(self.trace))
            work.extend(self.pending)
            self.stats['runs'] += 1
            if st:
                self.stats['paths'] += 1
                results.append(Path(st, list(self.trace), out, list(self.pc), list(self.events), info, list(self.imprecise)))
        self.leftover = work
        return results

    def frontier(self, harness, depth):
        """decision prefixes of length `depth` (or shorter, for runs that end earlier) that together cover the whole tree:
        used to split one exploration over worker processes"""
        self.depth_stop = depth
        self.frontier_prefixes = []
        try:
            done = self.explore(harness)
        finally:
            self.depth_stop = None
        return self.frontier_prefixes + [p.trace for p in done]

    def _reset(self, prefix):
        self.prefix = prefix
        self.trace = []
        self.pending = []
        self.solver = z3.Solver()
        self.solver.set('timeout', self.solver_timeout_ms)
        self.solver.set('random_seed', self.seed)
        self.pc = []
        self.heap = {}
        self.ncell = 0
        self.events = []
        self.imprecise = []
        self.nfresh = {}
        self.decided = {}
        self.keep = []
        self.model = None
        self.threads = []
        self.nblocks = 0
        self.locks = {}
        self.multi = False
        self.panic_out = None
        for h in self.hooks.get('reset', []):
            h(self)

    def fresh(self, name, sort):
        n = self.nfresh.get(name, 0)
        self.nfresh[name] = n + 1
        nm = name if n == 0 else f'{name}!{n}'
        if isinstance(sort, int):
            return z3.BitVec(nm, sort)
        if sort == 'bool':
            return z3.Bool(nm)
        return z3.Const(nm, sort)

    def assume(self, *cs):
        for c in cs:
            c = z3.simplify(c)
            if z3.is_true(c):
                continue
            if z3.is_false(c):
                raise Infeasible()
            self.solver.add(c)
            self.pc.append(c)
            if self.model is not None:
                try:
                    if not z3.is_true(self.model.eval(c, model_completion=True)):
                        self.model = None
                except z3.Z3Exception:
                    self.model = None

    def check(self, *cs):
        """-> model | True (satisfiable, no model at hand) | None (unsatisfiable)"""
        t = time.time()
        self.solver.push()
        self.solver.add(*cs)
        self.solver.set('timeout', min(self.solver_timeout_ms, 3000))
        r = self.solver.check()
        m = self.solver.model() if r == z3.sat else None
        self.solver.pop()
        if r == z3.unknown:
            # sums of symbolic 64-bit lengths: hand the same query to cvc5's integer encoding of bit-vector arithmetic
            r = self._cvc5_branch(list(self.solver.assertions()) + list(cs))
            if r == z3.sat:
                m = True
        if r == z3.unknown:
            self.solver.push()
            self.solver.add(*cs)
            self.solver.set('timeout', self.solver_timeout_ms)
            r = self.solver.check()
            m = self.solver.model() if r == z3.sat else None
            self.solver.pop()
        dt = time.time() - t
        self.stats['checks'] += 1
        self.stats['solver_s'] += dt
        if r == z3.unknown:
            raise Inconclusive('solver returned unknown (%.1fs) on a branch condition' % dt)
        return m

    def _cvc5_branch(self, constraints):
        import subprocess, tempfile, os
        self.stats['cvc5_branch_queries'] = self.stats.get('cvc5_branch_queries', 0) + 1
        s = z3.Solver()
        s.add(*constraints)
        txt = '(set-logic ALL)\n' + s.to_smt2()
        d = os.environ.get('VERIF_WORK', '/verif/.work')
        with tempfile.NamedTemporaryFile('w', suffix='.smt2', dir=d if os.path.isdir(d) else None, delete=False) as f:
            f.write(txt)
            path = f.name
        try:
            o = subprocess.run(['cvc5', '--lang', 'smt2', '--solve-bv-as-int=sum', '--tlimit=30000', path], capture_output=True, text=True)
            out = o.stdout.strip()
            if '(error' in out or '(error' in o.stderr:
                return z3.unknown
            if out.startswith('unsat'):
                return z3.unsat
            if out.startswith('sat'):
                return z3.sat
            return z3.unknown
        except FileNotFoundError:
            return z3.unknown
        finally:
            try:
                os.unlink(path)
            except OSError:
                pass

    def feasible(self):
        """is the current path condition satisfiable at all?"""
        if self.model is not None:
            return True
        m = self.check()
        if m is None:
            return False
        if isinstance(m, z3.ModelRef):
            self.model = m
        return True

    def decide(self, cond):
        cond = z3.simplify(cond)
        if z3.is_true(cond):
            return True
        if z3.is_false(cond):
            return False
        # a condition already decided on this path (same hash-consed term) keeps its value
        cid = cond.get_id()
        d = self.decided.get(cid)
        if d is not None:
            return d
        ch = self._decide(cond)
        self.keep.append(cond)
        self.decided[cid] = ch
        if z3.is_not(cond):
            self.decided[cond.arg(0).get_id()] = not ch
        return ch

    def _decide(self, cond):
        i = len(self.trace)
        if i < len(self.prefix):
            ch = self.prefix[i]
        else:
            if self.depth_stop is not None and i >= self.depth_stop:
                raise DepthStop()
            t_ok = f_ok = None
            if self.model is not None:
                try:
                    v = self.model.eval(cond, model_completion=True)
                    if z3.is_true(v):
                        t_ok = True
                    elif z3.is_false(v):
                        f_ok = True
                except z3.Z3Exception:
                    pass
            mt = mf = None
            if t_ok is None:
                mt = self.check(cond)
                t_ok = mt is not None
            if f_ok is None:
                mf = self.check(z3.Not(cond))
                f_ok = mf is not None
            if t_ok and f_ok:
                self.pending.append(self.trace + [False])
                ch = True
                if isinstance(mt, z3.ModelRef):
                    self.model = mt
            elif t_ok:
                ch = True
            elif f_ok:
                ch = False
                if isinstance(mf, z3.ModelRef):
                    self.model = mf
            else:
                raise Infeasible()
        self.trace.append(ch)
        c = cond if ch else z3.Not(cond)
        self.solver.add(c)
        self.pc.append(c)
        if self.model is not None:
            try:
                if not z3.is_true(self.model.eval(c, model_completion=True)):
                    self.model = None
            except z3.Z3Exception:
                self.model = None
        return ch

    def choose(self, n, tag='choice'):
        """non-deterministic choice among n alternatives (scheduler, model alternatives): all are explored"""
        if n <= 0:
            raise Infeasible()
        if n == 1:
            return 0
        i = len(self.trace)
        if i < len(self.prefix):
            ch = self.prefix[i]
        else:
            if self.depth_stop is not None and i >= self.depth_stop:
                raise DepthStop()
            ch = 0
            for k in range(n - 1, 0, -1):
                self.pending.append(self.trace + [k])
        self.trace.append(ch)
        return ch

    # ------------------------------------------------------------------ memory
    def alloc(self, v=None):
        self.ncell += 1
        self.heap[self.ncell] = v
        return self.ncell

    def read(self, cell, path):
        v = self.heap[cell]
        i = 0
        n = len(path)
        while i < n:
            e = path[i]
            k = e[0]
            if isinstance(v, Coro):
                if k == 'downcast':
                    v = v.vf.get((e[1], path[i + 1][1]))
                    i += 2
                    continue
                v = v.upvars[e[1]]
                i += 1
                continue
            if k == 'field':
                if v is None:
                    raise Unsupported(f'read of uninitialised field {path}')
                h = getattr(v, 'getp', None)
                if h is not None:
                    v = h(self, e)
                else:
                    try:
                        v = v.fields[e[1]]
                    except (IndexError, AttributeError):
                        raise Unsupported(f'field {e[1]} of {v!r}')
            elif k == 'downcast':
                pass
            elif k == 'cindex':
                v = v.fields[e[1]]
            elif k == 'index':
                idx = e[1]
                iv = z3.simplify(idx) if z3.is_expr(idx) else idx
                if z3.is_bv_value(iv):
                    v = v.fields[iv.as_long()]
                else:
                    raise Unsupported('symbolic index')
            else:
                raise Unsupported(str(e))
            i += 1
        return v

    def write(self, cell, path, val):
        self.heap[cell] = self._upd(self.heap[cell], path, 0, val)

    def _upd(self, v, path, i, val):
        if i == len(path):
            return val
        e = path[i]
        k = e[0]
        if isinstance(v, Coro):
            c = v.clone()
            if k == 'downcast':
                key = (e[1], path[i + 1][1])
                c.vf[key] = self._upd(c.vf.get(key), path, i + 2, val)
                return c
            c.upvars[e[1]] = self._upd(c.upvars[e[1]], path, i + 1, val)
            return c
        if k == 'downcast':
            return self._upd(v, path, i + 1, val)
        if k in ('field', 'cindex'):
            if v is None:
                v = Agg('?', [])
            h = getattr(v, 'setp', None)
            if h is not None:
                return h(self, e, lambda old: self._upd(old, path, i + 1, val))
            idx = e[1]
            old = v.fields[idx] if idx < len(v.fields) else None
            return v.with_field(idx, self._upd(old, path, i + 1, val))
        if k == 'index':
            iv = z3.simplify(e[1])
            if z3.is_bv_value(iv):
                idx = iv.as_long()
                return v.with_field(idx, self._upd(v.fields[idx], path, i + 1, val))
        raise Unsupported('write ' + str(e))

    def load(self, ref):
        return self.read(ref.cell, ref.path)

    def store(self, ref, v):
        self.write(ref.cell, ref.path, v)

    # ------------------------------------------------------------------ places / operands
    def place(self, fr, pl):
        base, projs = pl
        ref = Ref(fr.locals[base])
        for p in projs:
            k = p[0]
            if k == 'deref':
                v = self.load(ref)
                if isinstance(v, Ref):
                    ref = v
                elif isinstance(v, Agg) and v.ty in ('Pin', 'Box', 'Arc') and isinstance(v.fields[0], Ref):
                    ref = v.fields[0]
                else:
                    raise Unsupported(f'deref of {v!r} in {fr.fn.short}')
            elif k == 'index':
                idx = self.load(Ref(fr.locals[p[1]]))
                ref = Ref(ref.cell, ref.path + (('index', idx),))
            else:
                ref = Ref(ref.cell, ref.path + (p,))
        return ref

    def operand(self, fr, op):
        k = op[0]
        if k == 'const':
            return self.const(op[1])
        return self.load(self.place(fr, op[1]))

    def const(self, txt):
        c = self.const_cache.get(txt)
        if c is not None:
            return c
        v = self._const(txt)
        if z3.is_expr(v) or isinstance(v, (Opaque, FnPtr)) or v is UNIT:
            self.const_cache[txt] = v
        return v

    def _const(self, txt):
        m = re.fullmatch(r'(-?\d+)_([iu](?:8|16|32|64|128|size))', txt)
        if m:
            return z3.BitVecVal(int(m.group(1)), W[m.group(2)])
        m = re.fullmatch(r'([iu](?:8|16|32|64|128|size))::(MAX|MIN)', txt)
        if m:
            w = W[m.group(1)]
            u = m.group(1)[0] == 'u'
            if m.group(2) == 'MAX':
                return z3.BitVecVal((1 << w) - 1 if u else (1 << (w - 1)) - 1, w)
            return z3.BitVecVal(0 if u else (1 << (w - 1)), w)
        if txt == 'true':
            return z3.BoolVal(True)
        if txt == 'false':
            return z3.BoolVal(False)
        if txt == '()':
            return UNIT
        if txt.startswith('"') or txt.startswith('b"'):
            return Opaque('str:' + txt)
        m = re.fullmatch(r"'(.)'", txt)
        if m:
            return z3.BitVecVal(ord(m.group(1)), 32)
        if txt.startswith('ZeroSized: '):
            t = txt[len('ZeroSized: '):]
            if t.startswith('{closure@'):
                return self.make_closure(t[1:t.index('}')], [])
            mm = re.search(r'\{([^{}]+)\}$', t)
            if mm:
                return FnPtr(mm.group(1))
            return Agg(strip_generics(t).split('::')[-1], [])
        m = re.match(r'^\{alloc(\d+): &', txt)
        if m and m.group(1) in mirparse.ALLOCS:
            # a reference to a `static`: evaluate its initialiser
            sname = mirparse.ALLOCS[m.group(1)]
            for fn_name, f in self.fns.items():
                if (fn_name == sname or fn_name.endswith('::' + sname) or sname.endswith('::' + fn_name)) and not f.params and f.blocks:
                    return Ref(self.alloc(self.call_sync(f, [])))
        if txt.startswith('{alloc') or txt.startswith('&') or txt.startswith('['):
            return Opaque('alloc:' + txt[:60])
        name = strip_generics(txt)
        cands = (name, re.sub(r'^<(.*?) as .*?>::', r'\1::', name))
        for cand in cands:
            for fn_name, f in self.fns.items():
                if not (f.const_val is not None or not f.params):
                    continue
                suf = re.sub(r'^.*<impl at [^>]*>::', '', fn_name)
                if cand == fn_name or cand == suf or cand.endswith('::' + suf) or fn_name.endswith('::' + cand):
                    if f.const_val is not None:
                        return self.const(f.const_val.replace('const ', '', 1))
                    if f.blocks:
                        return self.call_sync(f, [])
        if txt == 'log::STATIC_MAX_LEVEL':
            return Enum('LevelFilter', 5)
        # function items used as values
        f = self.resolve_incrate(name)
        if f is not None:
            return FnPtr(name)
        return Opaque('const:' + txt)

    def make_closure(self, loc, caps):
        if '@' in loc:
            loc = loc.split('@', 1)[1]
        f = self.closures_by_loc.get(loc)
        if f is None:
            raise Unsupported('closure body for ' + loc)
        return Agg('closure:' + f.name, caps)

    # ------------------------------------------------------------------ rvalues
    @staticmethod
    def _signed(fr, op):
        if op[0] != 'const' and not op[1][1]:
            t = fr.fn.locals.get(op[1][0], '')
            return t.startswith('i')
        if op[0] == 'const':
            return bool(re.search(r'_i(8|16|32|64|128|size)$', op[1]))
        return False

    def binop(self, op, a, b, signed=False):
        if isinstance(a, Enum):
            a = self.disc(a)
        if isinstance(b, Enum):
            b = self.disc(b)
        if z3.is_bool(a) or z3.is_bool(b):
            if op == 'BitAnd':
                return z3.And(a, b)
            if op == 'BitOr':
                return z3.Or(a, b)
            if op == 'BitXor':
                return z3.Xor(a, b)
            if op == 'Eq':
                return a == b
            if op == 'Ne':
                return a != b
            raise Unsupported('bool binop ' + op)
        if isinstance(a, Opaque) or isinstance(b, Opaque):
            raise Unsupported(f'binop {op} on opaque {a} {b}')
        if op in ('Shl', 'Shr', 'ShlUnchecked', 'ShrUnchecked') and b.size() != a.size():
            b = z3.ZeroExt(a.size() - b.size(), b) if b.size() < a.size() else z3.Extract(a.size() - 1, 0, b)
        if op == 'Eq':
            return a == b
        if op == 'Ne':
            return a != b
        if op == 'Lt':
            return a < b if signed else z3.ULT(a, b)
        if op == 'Le':
            return a <= b if signed else z3.ULE(a, b)
        if op == 'Gt':
            return a > b if signed else z3.UGT(a, b)
        if op == 'Ge':
            return a >= b if signed else z3.UGE(a, b)
        if op in ('Add', 'AddUnchecked'):
            return a + b
        if op in ('Sub', 'SubUnchecked'):
            return a - b
        if op in ('Mul', 'MulUnchecked'):
            return a * b
        if op == 'Div':
            return a / b if signed else z3.UDiv(a, b)
        if op == 'Rem':
            return z3.SRem(a, b) if signed else z3.URem(a, b)
        if op == 'BitAnd':
            return a & b
        if op == 'BitOr':
            return a | b
        if op == 'BitXor':
            return a ^ b
        if op in ('Shl', 'ShlUnchecked'):
            return a << b
        if op in ('Shr', 'ShrUnchecked'):
            return a >> b if signed else z3.LShR(a, b)
        raise Unsupported('binop ' + op)

    def rvalue(self, fr, rv, dst_ty):
        k = rv[0]
        if k == 'use':
            return self.operand(fr, rv[1])
        if k == 'ref':
            return self.place(fr, rv[1])
        if k == 'bin':
            a = self.operand(fr, rv[2])
            b = self.operand(fr, rv[3])
            return self.binop(rv[1], a, b, self._signed(fr, rv[2]))
        if k == 'checked':
            a = self.operand(fr, rv[2])
            b = self.operand(fr, rv[3])
            signed = self._signed(fr, rv[2])
            op = rv[1]
            if signed:
                raise Unsupported('signed checked arithmetic')
            if op[0] == 'A':
                r = a + b
                o = z3.ULT(r, a)
            elif op[0] == 'S':
                r = a - b
                o = z3.ULT(a, b)
            else:
                r = a * b
                o = z3.Not(z3.BVMulNoOverflow(a, b, False))
            return Agg('(T,bool)', [r, o])
        if k == 'un':
            a = self.operand(fr, rv[2])
            if rv[1] == 'Not':
                return z3.Not(a) if z3.is_bool(a) else ~a
            return -a
        if k == 'discr':
            v = self.load(self.place(fr, rv[1]))
            w = W.get(dst_ty, 64)
            return self.disc(v, w)
        if k == 'cast':
            v = self.operand(fr, rv[1])
            ty = rv[2]
            if rv[3] in ('IntToInt',):
                if isinstance(v, Enum):
                    v = self.disc(v, 64)
                if z3.is_bool(v):
                    v = z3.If(v, z3.BitVecVal(1, 8), z3.BitVecVal(0, 8))
                n = W[ty]
                if v.size() < n:
                    return z3.SignExt(n - v.size(), v) if self._signed(fr, rv[1]) else z3.ZeroExt(n - v.size(), v)
                if v.size() > n:
                    return z3.Extract(n - 1, 0, v)
                return v
            return v
        if k == 'tuple':
            return Agg('tuple', [self.operand(fr, x) for x in rv[1]])
        if k == 'array':
            return Agg('array', [self.operand(fr, x) for x in rv[1]])
        if k == 'struct':
            ty = strip_generics(rv[1]).split('::')[-1]
            names = self.structs.get(ty)
            vals = {kk: self.operand(fr, vv) for kk, vv in rv[2]}
            if names is None or set(vals) - set(names):
                names = [kk for kk, _ in rv[2]]
            return Agg(ty, [vals.get(n) for n in names])
        if k == 'closure':
            return self.make_closure(rv[1], [self.operand(fr, v) for _, v in rv[2]])
        if k == 'coroutine':
            ups = [self.operand(fr, v) for _, v in rv[2]]
            loc = rv[1].split('@', 1)[1].split(' (#')[0] if '@' in rv[1] else None
            body = None
            # an async block inside this function: the nested body whose state type mentions the block's location
            if loc:
                for n, f2 in self.fns.items():
                    if n.startswith(fr.fn.name + '::{closure#') and n.count('{closure#') == fr.fn.name.count('{closure#') + 1 \
                            and loc in f2.locals.get('_1', ''):
                        body = f2
                        break
            if body is None:
                body = self.fns.get(fr.fn.name + '::{closure#0}')
            if body is None:
                raise Unsupported('coroutine body ' + rv[1])
            return Coro(body, ups)
        if k == 'variant':
            path = strip_generics(rv[1])
            args = [self.operand(fr, x) for x in rv[2]]
            segs = path.split('::')
            var = segs[-1]
            en = segs[-2] if len(segs) > 1 else None
            if en in STD_ENUMS and var in STD_ENUMS[en]:
                return Enum(en, STD_ENUMS[en].index(var), args)
            if en in self.enums and var in dict(self.enums[en]):
                return Enum(en, dict(self.enums[en])[var], args)
            if var in self.structs or (en is None and not args):
                return Agg(var, args)
            if en is None and dst_ty:
                t = strip_generics(dst_ty).split('::')[-1]
                if t in self.enums and var in dict(self.enums[t]):
                    return Enum(t, dict(self.enums[t])[var], args)
            return Enum(en or '?', var, args)
        if k == 'repeat':
            v = self.operand(fr, rv[1])
            n = self.const(rv[2].replace('const ', '').strip())
            return Agg('array', [v] * z3.simplify(n).as_long())
        if k == 'ptrmeta':
            raise Unsupported('PtrMetadata')
        if k == 'len':
            v = self.load(self.place(fr, rv[1]))
            return z3.BitVecVal(len(v.fields), 64)
        raise Unsupported('rvalue ' + str(rv))

    def disc(self, v, width=64):
        if isinstance(v, Enum):
            if isinstance(v.var, int):
                return z3.BitVecVal(v.var, width)
            if isinstance(v.var, str):
                raise Unsupported('discriminant of unknown variant ' + repr(v))
            return z3.ZeroExt(width - v.var.size(), v.var) if v.var.size() < width else v.var
        if isinstance(v, Coro):
            return z3.BitVecVal(v.var, width)
        h = getattr(v, 'discr', None)
        if h is not None:
            return h(self, width)
        raise Unsupported(f'discriminant of {v!r}')

    # ------------------------------------------------------------------ call resolution
    def resolve_incrate(self, name):
        m = re.match(r'^<(.+) as ([\w:]+)(?:<.*>)?>::(\w+)$', name)
        if m:
            ty = strip_generics(m.group(1)).split('::')[-1]
            ty = re.sub(r'<.*$', '', ty)
            tr = m.group(2).split('::')[-1]
            f = self.by_method.get((f"<{ty} as {tr}>", m.group(3)))
            if f:
                return f
            return None
        if name in self.fns:
            return self.fns[name]
        segs = name.split('::')
        if len(segs) >= 2:
            f = self.by_method.get((segs[-2], '::'.join(segs[-1:])))
            if f:
                return f
        for k, f in self.fns.items():
            if k.endswith('::' + name):
                return f
        return None

    def resolve(self, callee):
        name = strip_generics(callee)
        h = self.models.get(name)
        if h is not None:
            return h
        for rx, h in self.model_res:
            m = rx.match(name)
            if m:
                return h
        return self.resolve_incrate(name)

    # ------------------------------------------------------------------ threads and the run loop
    def new_thread(self, name=''):
        t = Thread(len(self.threads), name)
        self.threads.append(t)
        return t

    def push_call(self, th, f, args, ret_to_set=True):
        if len(th.stack) > 400:
            raise Inconclusive('call depth bound')
        loc = {}
        for k in f.locals:
            self.ncell += 1
            self.heap[self.ncell] = None
            loc[k] = self.ncell
        if len(args) != len(f.params):
            # closures called through Fn* traits get their arguments as one tuple
            if len(f.params) >= 1 and len(args) == 2 and isinstance(args[1], Agg) and args[1].ty == 'tuple' \
                    and len(args[1].fields) == len(f.params) - 1:
                args = [args[0]] + list(args[1].fields)
            else:
                raise Unsupported(f'arity mismatch calling {f.short}: {len(args)} vs {len(f.params)}')
        for p, a in zip(f.params, args):
            self.heap[loc[p]] = a
        if self.watch:
            cb = self.watch.get(f.name)
            if cb is not None:
                cb(self, args)
        fr = Frame(f, loc)
        th.stack.append(fr)
        return fr

    def call_sync(self, f, args):
        """run f(args) to completion on a private thread (single-thread mode helper)"""
        th = Thread(-1, 'sync')
        self.push_call(th, f, list(args))
        saved = self.multi
        self.multi = False
        try:
            self.run(th)
        finally:
            self.multi = saved
        if th.status == 'panicked':
            raise Panic(th.panic)
        return th.result

    call = call_sync

    def deliver(self, th, value):
        """a frame finished with `value`: pop it and hand the value to whoever waits"""
        th.stack.pop()
        self.give(th, value)

    def give(self, th, value):
        """hand `value` to the frame on top of the stack (the one that made the call)"""
        if not th.stack:
            th.result = value
            th.status = 'done'
            return
        top = th.stack[-1]
        if isinstance(top, GenFrame):
            top.inbox = value
        else:
            dest, nxt, _unw = top.ret_to
            top.ret_to = None
            if dest is not None:
                self.store(dest, value)
            top.bb = nxt

    def run(self, th):
        """run thread until it finishes or parks at a shared operation"""
        while th.stack and th.status == 'ready':
            top = th.stack[-1]
            if isinstance(top, GenFrame):
                try:
                    if not top.started:
                        top.started = True
                        req = next(top.gen)
                    else:
                        v = top.inbox
                        top.inbox = None
                        req = top.gen.send(v)
                except StopIteration as e:
                    self.deliver(th, e.value)
                    continue
                except Panic as e:
                    self.do_panic(th, str(e))
                    continue
                if req[0] == 'call':
                    tgt = req[1]
                    if callable(tgt) and not isinstance(tgt, mirparse.Fn):
                        self.invoke_model(th, tgt, list(req[2]), None, None, req[3] if len(req) > 3 else '')
                    else:
                        self.push_call(th, tgt, list(req[2]))
                elif req[0] == 'park':
                    th.status = 'parked'
                    th.park = ('gen', req[1], req[2] if len(req) > 2 else None)
                    return
                else:
                    raise Unsupported('model request ' + str(req[0]))
                continue
            try:
                self.step(th, top)
            except Panic as e:
                self.do_panic(th, str(e))
        return th

    def do_panic(self, th, msg):
        """begin unwinding (if enabled) or abort the path"""
        if not self.unwind:
            th.status = 'panicked'
            th.panic = msg
            self.release_all(th)
            if not self.multi:
                raise Panic(msg)
            th.stack = []
            return
        # unwinding: pop model frames; in MIR frames follow the unwind edge of the active call/assert
        th.panic = th.panic or msg
        while th.stack:
            top = th.stack[-1]
            if isinstance(top, GenFrame):
                th.stack.pop()
                continue
            unw = None
            if top.ret_to is not None:
                unw = top.ret_to[2]
                top.ret_to = None
            elif top.pending is not None:
                unw = top.pending
                top.pending = None
            if unw and unw.startswith('bb'):
                top.bb = unw
                top.unwinding = True
                return
            th.stack.pop()
        th.status = 'panicked'
        self.release_all(th)
        if not self.multi:
            raise Panic(th.panic)

    def step(self, th, fr):
        """execute one basic block of MIR frame fr"""
        self.stats['blocks'] += 1
        self.nblocks += 1
        if self.nblocks > self.max_blocks_per_run:
            raise Inconclusive('block budget exhausted (possible non-termination)')
        f = fr.fn
        bb = fr.bb
        ex = self.executed.get(f.name)
        if ex is None:
            ex = self.executed[f.name] = set()
        ex.add(bb)
        stmts, term = parsed_block(f, bb)
        for st in stmts:
            k = st[0]
            if k == 'assign':
                try:
                    v = self.rvalue(fr, st[2], f.locals.get(st[3]))
                    self.store(self.place(fr, st[1]), v)
                except (z3.Z3Exception, AttributeError, TypeError, IndexError, KeyError) as exn:
                    raise Unsupported(f'{exn!r} at {f.short} {bb}: {st}')
            elif k == 'setdiscr':
                r = self.place(fr, st[1])
                v = self.load(r)
                if isinstance(v, Coro):
                    nv = v.clone()
                    nv.var = st[2]
                elif isinstance(v, Enum):
                    nv = Enum(v.ty, st[2], v.fields)
                else:
                    nv = Enum(f.locals.get(st[1][0], '?'), st[2], [])
                self.store(r, nv)
            elif k == 'assume':
                self.assume(self.operand(fr, st[1]))
            elif k == 'error':
                raise Unsupported(st[1])
        k = term[0]
        if k == 'goto':
            fr.bb = term[1]
            self._loopcheck(fr)
            return
        if k == 'return':
            self.deliver(th, self.heap[fr.locals['_0']])
            return
        if k == 'switch':
            v = self.operand(fr, term[1])
            if isinstance(v, (Enum, Coro)):
                v = self.disc(v)
            nxt = None
            for val, tb in term[2]:
                if val is None:
                    nxt = tb
                    break
                if isinstance(v, Opaque):
                    raise Unsupported(f'switch on {v} in {f.short} {bb}')
                if z3.is_bool(v):
                    c = v if val else z3.Not(v)
                else:
                    c = (v == z3.BitVecVal(val, v.size()))
                if self.decide(c):
                    nxt = tb
                    break
            if nxt is None:
                raise Infeasible()
            fr.bb = nxt
            self._loopcheck(fr)
            return
        if k == 'assert':
            c = self.operand(fr, term[2])
            if term[1]:
                c = z3.Not(c)
            if self.decide(c):
                fr.bb = term[4]['success']
                return
            fr.pending = term[4].get('unwind')
            raise Panic(f"{term[3]} [{f.short} {bb}]")
        if k == 'drop':
            r = self.place(fr, term[1])
            try:
                v = self.load(r)
            except Unsupported:
                v = None
            fr.bb = term[2]['return'] if 'return' in term[2] else None
            self.drop_value(th, fr, v, r)
            return
        if k == 'call':
            args = [self.operand(fr, a) for a in term[3]]
            tg = term[4]
            nxt = tg.get('return')
            callee = term[2]
            dest = self.place(fr, term[1])
            if isinstance(callee, tuple):
                fv = self.operand(fr, callee[1])
                tgt = self.resolve_value_callee(fv)
                cname = repr(fv)
            else:
                tgt = self.resolve(callee)
                cname = callee
            if nxt is None and tgt is None:
                fr.pending = tg.get('unwind')
                raise Panic(f'diverging call {strip_generics(cname)} [{f.short} {bb}]')
            fr.ret_to = (dest, nxt, tg.get('unwind'))
            if tgt is None:
                nm = strip_generics(cname)
                self.events.append(('unmodelled', nm))
                self.imprecise.append(nm)
                self.give(th, Opaque('ret:' + nm))
                return
            if isinstance(tgt, mirparse.Fn):
                if not tgt.blocks:
                    raise Unsupported('no body: ' + tgt.name)
                self.push_call(th, tgt, args)
                return
            self.invoke_model(th, tgt, args, f.locals.get(term[1][0]) if not term[1][1] else None, fr, cname)
            return
        if k == 'unreachable':
            raise Infeasible()
        if k == 'resume':
            # end of a cleanup chain: continue unwinding in the caller
            th.stack.pop()
            self.do_panic(th, th.panic or 'resume')
            return
        if k == 'error':
            raise Unsupported(term[1])
        raise Unsupported('terminator ' + str(term))

    def _loopcheck(self, fr):
        n = fr.visits.get(fr.bb, 0) + 1
        fr.visits[fr.bb] = n
        if n > self.loop_bound:
            raise Inconclusive(f'unwinding bound {self.loop_bound} reached in {fr.fn.short} {fr.bb}')

    def resolve_value_callee(self, fv):
        if isinstance(fv, FnPtr):
            return self.resolve(fv.name)
        if isinstance(fv, Agg) and fv.ty.startswith('closure:'):
            return self.fns[fv.ty[8:]]
        raise Unsupported(f'indirect call through {fv!r}')

    def invoke_model(self, th, h, args, dst_ty, fr, cname):
        """h(engine, args, ctx) -> value | generator.  ctx carries the thread, callee text and destination type."""
        shared = getattr(h, 'shared', None)
        ctx = CallCtx(th, cname, dst_ty)
        if shared and self.multi and not th.granted:
            th.status = 'parked'
            th.park = ('model', h, args, ctx, shared)
            return
        th.granted = False
        r = h(self, args, ctx)
        if inspect.isgenerator(r):
            th.stack.append(GenFrame(r))
            return
        self.give(th, r)

    def resume_parked(self, th):
        kind = th.park[0]
        th.status = 'ready'
        if kind == 'model':
            _, h, args, ctx, _sh = th.park
            th.park = None
            th.granted = True
            self.invoke_model(th, h, args, ctx.dst_ty, None, ctx.callee)
        else:
            th.park = None
        self.run(th)

    # ------------------------------------------------------------------ drops
    def drop_value(self, th, fr, v, ref):
        """release lock guards reachable from v; run in-crate Drop impls (e.g. Client)"""
        todo = []
        self._collect_drops(v, ref, todo, 0)
        if fr.bb is None:
            raise Unsupported('drop without return target')
        calls = []
        for kind, obj, r in todo:
            if kind == 'guard':
                obj.release(self, th)
            elif kind == 'dropimpl':
                calls.append((obj, r))
        if calls:
            # run the Drop impls one after the other; each returns into this frame at the same bb
            for f, r in reversed(calls):
                fr.ret_to = (None, fr.bb, None)
                self.push_call(th, f, [r])
                # nested sequencing: the pushed frame returns to `fr`; push only one at a time
                if len(calls) > 1:
                    raise Unsupported('several Drop impls in one drop')

    def _collect_drops(self, v, ref, todo, depth):
        if v is None or depth > 6:
            return
        rel = getattr(v, 'release', None)
        if rel is not None:
            todo.append(('guard', v, ref))
            return
        if isinstance(v, Agg):
            f = self.by_method.get((f'<{v.ty} as Drop>', 'drop'))
            if f is not None:
                todo.append(('dropimpl', f, ref))
            for i, x in enumerate(v.fields):
                if isinstance(x, (Agg, Enum, Coro)) or getattr(x, 'release', None) is not None:
                    self._collect_drops(x, Ref(ref.cell, ref.path + (('field', i),)) if ref else None, todo, depth + 1)
        elif isinstance(v, Enum):
            for i, x in enumerate(v.fields):
                if isinstance(x, (Agg, Enum, Coro)) or getattr(x, 'release', None) is not None:
                    self._collect_drops(x, Ref(ref.cell, ref.path + (('field', i),)) if ref else None, todo, depth + 1)
        elif isinstance(v, Coro):
            for i, x in enumerate(v.upvars):
                if isinstance(x, (Agg, Enum, Coro)):
                    self._collect_drops(x, Ref(ref.cell, ref.path + (('field', i),)) if ref else None, todo, depth + 1)
            for (var, i), x in v.vf.items():
                if isinstance(x, (Agg, Enum, Coro)) or getattr(x, 'release', None) is not None:
                    if str(var) == f'variant#{v.var}' or True:
                        self._collect_drops(x, Ref(ref.cell, ref.path + (('downcast', var), ('field', i))) if ref else None, todo, depth + 1)

    def release_all(self, th):
        for g in list(th.guards):
            g.release(self, th)

    # ------------------------------------------------------------------ scheduler (simulated threads)
    def spawn(self, f, args, name=''):
        th = self.new_thread(name)
        if isinstance(f, mirparse.Fn):
            self.push_call(th, f, list(args))
        else:
            th.stack.append(GenFrame(f))
        return th

    def run_threads(self, threads, max_ops=200):
        """explore all interleavings of the threads' shared operations (every choice is a decision)"""
        self.multi = True
        nops = 0
        try:
            while True:
                for t in threads:
                    if t.status == 'ready' and t.stack:
                        self.run(t)
                parked = [t for t in threads if t.status == 'parked']
                if not parked:
                    break
                enabled = [t for t in parked if self.park_enabled(t)]
                if not enabled:
                    self.events.append(('deadlock', tuple(t.tid for t in parked)))
                    break
                i = self.choose(len(enabled), 'sched')
                t = enabled[i]
                nops += 1
                if nops > max_ops:
                    raise Inconclusive('schedule length bound')
                self.events.append(('sched', t.tid, self.park_name(t)))
                self.resume_parked(t)
        finally:
            self.multi = False

    def park_enabled(self, t):
        if t.park[0] == 'model':
            sh = t.park[4]
            en = getattr(t.park[1], 'enabled', None)
            if en is not None:
                return en(self, t, t.park[2])
            return True
        if t.park[0] == 'gen':
            cond = t.park[2]
            return cond(self, t) if cond else True
        return True

    def park_name(self, t):
        if t.park[0] == 'model':
            return t.park[4] if isinstance(t.park[4], str) else getattr(t.park[1], '__name__', 'op')
        return str(t.park[1])


class CallCtx:
    __slots__ = ('thread', 'callee', 'dst_ty')

    def __init__(self, thread, callee, dst_ty):
        self.thread = thread
        self.callee = callee
        self.dst_ty = dst_ty

    def generic(self, i=0):
        """i-th type argument of the last turbofish in the callee text"""
        c = self.callee
        k = c.rfind('::<')
        if k < 0:
            return None
        inner = c[k + 3:c.rindex('>')]
        parts = mirparse.split_top(inner)
        return parts[i] if i < len(parts) else None

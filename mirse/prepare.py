"""Snapshot /repo's working tree, dump its MIR with the pinned nightly, build the native replay driver.

Everything lives under /verif/.work (git-ignored).  /repo itself is never written to.  The MIR dump and the driver
are rebuilt whenever the snapshot's content hash differs from the one they were built from (cargo's own incremental
cache does the rest); concurrent checks serialise on a lock file.
"""
import os, sys, subprocess, hashlib, fcntl, time, json, shutil

VERIF = os.path.dirname(os.path.dirname(os.path.abspath(__file__)))
WORK = os.path.join(VERIF, '.work')
REPO = os.environ.get('VERIF_REPO', '/repo')
SRC = os.path.join(WORK, 'src')
MIR = os.path.join(WORK, 'memcrs.mir')
CRATE_SRC = os.path.join(SRC, 'memcrs', 'src')
REPLAY_BIN = os.path.join(WORK, 'target-replay', 'debug', 'memcrs-replay')
REPLAY_BIN_REL = os.path.join(WORK, 'target-replay', 'release', 'memcrs-replay')
GUARD = 'memcrs_verif'


def env():
    e = dict(os.environ)
    e['CARGO_NET_OFFLINE'] = 'true'
    e['RUSTFLAGS'] = f'--cfg {GUARD}'
    e.pop('RUSTUP_TOOLCHAIN', None)
    return e


def tree_hash(root):
    h = hashlib.sha256()
    for d, dirs, files in os.walk(root):
        dirs[:] = sorted(x for x in dirs if x not in ('target', '.git'))
        for f in sorted(files):
            p = os.path.join(d, f)
            if not (f.endswith('.rs') or f.endswith('.toml') or f.endswith('.lock')):
                continue
            h.update(os.path.relpath(p, root).encode())
            h.update(b'\0')
            with open(p, 'rb') as fh:
                h.update(fh.read())
    return h.hexdigest()


def run(cmd, cwd, e, log):
    t = time.time()
    with open(log, 'w') as lf:
        r = subprocess.run(cmd, cwd=cwd, env=e, stdout=subprocess.PIPE, stderr=lf)
    return r, time.time() - t


def prepare(release=False, quiet=False):
    os.makedirs(WORK, exist_ok=True)
    lock = open(os.path.join(WORK, 'lock'), 'w')
    fcntl.flock(lock, fcntl.LOCK_EX)
    info = {}
    try:
        subprocess.run(['rsync', '-a', '--delete', '--exclude', 'target', '--exclude', '.git', REPO + '/', SRC + '/'], check=True)
        h = tree_hash(SRC)
        info['tree_hash'] = h
        stamp = os.path.join(WORK, 'mir.stamp')
        have = open(stamp).read().strip() if os.path.exists(stamp) else ''
        if have != h or not os.path.exists(MIR):
            e = env()
            e['CARGO_TARGET_DIR'] = os.path.join(WORK, 'target-mir')
            # touch so that cargo re-runs rustc and the dump is not empty
            os.utime(os.path.join(CRATE_SRC, 'lib.rs'))
            r, dt = run(['cargo', '+nightly', 'rustc', '--offline', '--lib', '--', '-Zunpretty=mir',
                         '-C', 'debug-assertions=off', '-C', 'overflow-checks=on'],
                        os.path.join(SRC, 'memcrs'), e, os.path.join(WORK, 'mir.err'))
            if r.returncode != 0 or len(r.stdout) < 1000:
                sys.stderr.write(open(os.path.join(WORK, 'mir.err')).read()[-3000:])
                raise SystemExit('MIR dump failed (does /repo compile?)')
            with open(MIR, 'wb') as f:
                f.write(r.stdout)
            open(stamp, 'w').write(h)
            info['mir_dump_s'] = round(dt, 1)
        rstamp = os.path.join(WORK, 'replay.stamp' + ('.rel' if release else ''))
        have = open(rstamp).read().strip() if os.path.exists(rstamp) else ''
        rsrc = tree_hash(os.path.join(VERIF, 'replay'))
        want = h + ':' + rsrc
        binp = REPLAY_BIN_REL if release else REPLAY_BIN
        if have != want or not os.path.exists(binp):
            shutil.copy(os.path.join(SRC, 'Cargo.lock'), os.path.join(VERIF, 'replay', 'Cargo.lock'))
            e = env()
            e['CARGO_TARGET_DIR'] = os.path.join(WORK, 'target-replay')
            cmd = ['cargo', 'build', '--offline'] + (['--release'] if release else [])
            r, dt = run(cmd, os.path.join(VERIF, 'replay'), e, os.path.join(WORK, 'replay.err'))
            if r.returncode != 0:
                sys.stderr.write(open(os.path.join(WORK, 'replay.err')).read()[-3000:])
                raise SystemExit('replay driver build failed')
            open(rstamp, 'w').write(want)
            info['replay_build_s'] = round(dt, 1)
    finally:
        fcntl.flock(lock, fcntl.LOCK_UN)
        lock.close()
    if not quiet:
        print('prepare:', json.dumps(info))
    return info


def replay(scenarios, release=False, timeout=120):
    """run scenarios (a list of dicts) natively; returns the list of outcomes"""
    os.makedirs(os.path.join(WORK, 'scen'), exist_ok=True)
    p = os.path.join(WORK, 'scen', f'batch-{os.getpid()}-{time.time_ns()}.json')
    with open(p, 'w') as f:
        json.dump(scenarios, f)
    binp = REPLAY_BIN_REL if release else REPLAY_BIN
    r = subprocess.run([binp, p], stdout=subprocess.PIPE, stderr=subprocess.PIPE, timeout=timeout)
    os.unlink(p)
    if r.returncode != 0:
        raise RuntimeError('replay driver failed: ' + r.stderr.decode()[-2000:])
    return json.loads(r.stdout.decode())


if __name__ == '__main__':
    prepare(release='--release' in sys.argv)

"""Parser for the text rustc prints with -Zunpretty=mir.

Produces, per body, locals (name -> type text), basic blocks (list of parsed
statements + a parsed terminator).  Statements/terminators are parsed lazily
(on first execution) and cached, because only ~150 of the ~480 bodies in the
dump are ever executed.
"""
import re, hashlib


class Fn:
    __slots__ = ('name', 'params', 'ret', 'locals', 'blocks', 'const_val', 'text', 'cleanup', '_parsed', 'short')

    def __init__(self, name, params, ret):
        self.name = name
        self.params = params
        self.ret = ret
        self.locals = {}
        self.blocks = {}
        self.const_val = None
        self.text = []
        self.cleanup = set()
        self._parsed = {}
        self.short = re.sub(r'<impl at [^>]*?/([^/>:]+):(\d+):\d+: \d+:\d+>', r'<\1:\2>', name)

    def sha(self):
        return hashlib.sha256('\n'.join(self.text).encode()).hexdigest()[:12]


def split_top(s, sep=','):
    """split on sep at nesting depth 0 (parens, brackets, braces, angle brackets; string literals skipped)"""
    out = []
    depth = 0
    cur = []
    i = 0
    instr = False
    n = len(s)
    while i < n:
        c = s[i]
        if instr:
            cur.append(c)
            if c == '\\':
                cur.append(s[i + 1])
                i += 1
            elif c == '"':
                instr = False
        else:
            if c == '"':
                instr = True
                cur.append(c)
            elif c in '([{':
                depth += 1
                cur.append(c)
            elif c in ')]}':
                depth -= 1
                cur.append(c)
            elif c == '<':
                depth += 1
                cur.append(c)
            elif c == '>' and i > 0 and s[i - 1] not in '-=':
                depth -= 1
                cur.append(c)
            elif c == sep and depth == 0:
                out.append(''.join(cur).strip())
                cur = []
            else:
                cur.append(c)
        i += 1
    t = ''.join(cur).strip()
    if t:
        out.append(t)
    return out


ALLOCS = {}


def parse(path):
    fns = {}
    cur = None
    curbb = None
    for ln in open(path).read().split('\n'):
        if cur is None:
            if ln.startswith('alloc'):
                ma = re.match(r'^alloc(\d+) \(static: ([^,]+),', ln)
                if ma:
                    ALLOCS[ma.group(1)] = ma.group(2).strip()
                continue
            m = re.match(r'^(fn|const|static) (.*)$', ln)
            if not m:
                continue
            kind, rest = m.group(1), m.group(2)
            if kind == 'fn' and ln.rstrip().endswith('{'):
                mm = re.search(r'\((_1: |\))', rest)
                p = mm.start()
                name = rest[:p]
                depth = 0
                j = p
                while True:
                    if rest[j] == '(':
                        depth += 1
                    elif rest[j] == ')':
                        depth -= 1
                        if depth == 0:
                            break
                    j += 1
                params = split_top(rest[p + 1:j])
                ret = rest[j + 1:].strip()
                ret = ret[2:].strip() if ret.startswith('->') else '()'
                ret = ret[:-1].strip()
                cur = Fn(name, [q.split(': ', 1)[0] for q in params], ret)
                for q in params:
                    k, t = q.split(': ', 1)
                    cur.locals[k] = t
                cur.locals['_0'] = ret
                cur.text.append(ln)
                fns[name] = cur
            elif kind in ('const', 'static'):
                if ln.rstrip().endswith('{'):
                    lhs = rest.rstrip('{').rstrip()
                    if ' = ' in lhs:
                        lhs = lhs.rsplit(' = ', 1)[0]
                    name, ty = lhs.rsplit(': ', 1)
                    cur = Fn(name, [], ty)
                    cur.locals['_0'] = ty
                    cur.text.append(ln)
                    fns[name] = cur
                else:
                    lhs, val = rest.rstrip(';').rsplit(' = ', 1)
                    name, ty = lhs.rsplit(': ', 1)
                    f = Fn(name, [], ty)
                    f.const_val = val.strip()
                    f.text.append(ln)
                    fns[name] = f
        else:
            cur.text.append(ln)
            s = ln.strip()
            if ln.startswith('}'):
                cur = None
                curbb = None
            elif s.startswith('let '):
                m = re.match(r'let (mut )?(_\d+): (.*);$', s)
                if m:
                    cur.locals[m.group(2)] = m.group(3)
            elif re.match(r'^bb\d+( \(cleanup\))?: \{$', s):
                curbb = s.split(':')[0].split(' ')[0]
                cur.blocks[curbb] = []
                if '(cleanup)' in s:
                    cur.cleanup.add(curbb)
            elif s == '}' and curbb:
                curbb = None
            elif curbb and s and not s.startswith('//'):
                cur.blocks[curbb].append(s)
    for f in fns.values():
        for bb, st in list(f.blocks.items()):
            f.blocks[bb] = (st[:-1], st[-1])
    return fns


# ----------------------------------------------------------------------------
# places / operands / rvalues / terminators -> tuples

_SKIP = ('StorageLive', 'StorageDead', 'ConstEvalCounter', 'nop', 'FakeRead', 'PlaceMention', 'Retag',
         'Coverage', 'AscribeUserType', 'BackwardIncompatibleDropHint')

_place_cache = {}


def _balanced(t):
    d = 0
    for c in t:
        if c == '(':
            d += 1
        elif c == ')':
            d -= 1
            if d < 0:
                return False
    return d == 0


def _field_split(inner):
    """`P.N: T` -> (P, N) ; None if not of that form"""
    d = 0
    for i, c in enumerate(inner):
        if c in '(<[{':
            d += 1
        elif c in ')]}':
            d -= 1
        elif c == '>' and inner[i - 1] not in '-=':
            d -= 1
        elif c == ':' and d == 0 and inner[i:i + 2] == ': ':
            left = inner[:i]
            m = re.match(r'^(.*)\.(\d+)$', left)
            if m:
                return (m.group(1), int(m.group(2)))
            return None
    return None


def parse_place(txt):
    """-> (local, (proj, ...)) ; proj in ('deref',) ('field', i) ('downcast', name) ('index', local) ('cindex', i)"""
    txt = txt.strip()
    r = _place_cache.get(txt)
    if r is not None:
        return r
    r = _parse_place(txt)
    _place_cache[txt] = r
    return r


def _parse_place(txt):
    if re.fullmatch(r'_\d+', txt):
        return (txt, ())
    if txt.startswith('(') and txt.endswith(')') and _balanced(txt[1:-1]):
        inner = txt[1:-1].strip()
        if inner.startswith('*'):
            b, p = parse_place(inner[1:])
            return (b, p + (('deref',),))
        m = re.match(r'^(.*) as (variant#\d+|\w+)$', inner)
        if m and _balanced(m.group(1)):
            b, p = parse_place(m.group(1))
            return (b, p + (('downcast', m.group(2)),))
        k = _field_split(inner)
        if k:
            b, p = parse_place(k[0])
            return (b, p + (('field', k[1]),))
    m = re.match(r'^(.*)\.(\d+)$', txt)
    if m:
        b, p = parse_place(m.group(1))
        return (b, p + (('field', int(m.group(2))),))
    m = re.match(r'^(.*)\[(_\d+)\]$', txt)
    if m:
        b, p = parse_place(m.group(1))
        return (b, p + (('index', m.group(2)),))
    m = re.match(r'^(.*)\[(\d+) of \d+\]$', txt)
    if m:
        b, p = parse_place(m.group(1))
        return (b, p + (('cindex', int(m.group(2))),))
    raise ValueError('place ' + txt)


def parse_operand(txt):
    txt = txt.strip()
    if txt.startswith('no_retag '):
        txt = txt[9:]
    if txt.startswith('copy '):
        return ('copy', parse_place(txt[5:]))
    if txt.startswith('move '):
        return ('move', parse_place(txt[5:]))
    if txt.startswith('const '):
        return ('const', txt[6:].strip())
    return ('const', txt)


BINOPS = {'Eq', 'Ne', 'Lt', 'Le', 'Gt', 'Ge', 'Add', 'Sub', 'Mul', 'Div', 'Rem', 'BitAnd', 'BitOr', 'BitXor', 'Shl', 'Shr',
          'AddUnchecked', 'SubUnchecked', 'MulUnchecked', 'ShlUnchecked', 'ShrUnchecked', 'Offset', 'Cmp'}
CHECKED = {'AddWithOverflow', 'SubWithOverflow', 'MulWithOverflow'}


def parse_rvalue(txt):
    txt = txt.strip()
    m = re.match(r'^(\w+)\((.*)\)$', txt)
    if m:
        op = m.group(1)
        if op in BINOPS:
            a, b = split_top(m.group(2))
            return ('bin', op, parse_operand(a), parse_operand(b))
        if op in CHECKED:
            a, b = split_top(m.group(2))
            return ('checked', op, parse_operand(a), parse_operand(b))
        if op in ('Not', 'Neg'):
            return ('un', op, parse_operand(m.group(2)))
        if op == 'discriminant':
            return ('discr', parse_place(m.group(2)))
        if op == 'PtrMetadata':
            return ('ptrmeta', parse_operand(m.group(2)))
        if op == 'Len':
            return ('len', parse_place(m.group(2)))
        if op == 'CopyForDeref':
            return ('use', ('copy', parse_place(m.group(2))))
    if txt.startswith('&'):
        t = re.sub(r"^&(raw (const|mut) |mut |'\w+ (mut )?)?", '', txt)
        return ('ref', parse_place(t))
    m = re.match(r'^(.*) as (.+?) \((\w+(?:\(.*?\))?)\)$', txt)
    if m and (txt.startswith('copy ') or txt.startswith('move ') or txt.startswith('const ')):
        return ('cast', parse_operand(m.group(1)), m.group(2), m.group(3))
    if txt.startswith('copy ') or txt.startswith('move ') or txt.startswith('const ') or txt.startswith('no_retag '):
        return ('use', parse_operand(txt))
    if txt.startswith('(') and txt.endswith(')'):
        return ('tuple', tuple(parse_operand(x) for x in split_top(txt[1:-1])))
    if txt == '()':
        return ('tuple', ())
    if txt.startswith('[') and txt.endswith(']'):
        inner = txt[1:-1]
        parts = split_top(inner, ';')
        if len(parts) == 2:
            return ('repeat', parse_operand(parts[0]), parts[1])
        return ('array', tuple(parse_operand(x) for x in split_top(inner)))
    if txt.startswith('{closure@') or txt.startswith('{coroutine@') or txt.startswith('{async '):
        loc = txt[1:txt.index('}')]
        rest = txt[txt.index('}') + 1:].strip()
        caps = []
        if rest.startswith('{'):
            for kv in split_top(rest[1:-1].strip()):
                caps.append((kv.split(': ', 1)[0], parse_operand(kv.split(': ', 1)[1])))
        kind = 'closure' if txt.startswith('{closure@') else 'coroutine'
        return (kind, loc, tuple(caps))
    m = re.match(r'^(.+?) \{ (.*) \}$', txt)
    if m and not m.group(1).startswith('{'):
        fields = []
        for kv in split_top(m.group(2)):
            k, v = kv.split(': ', 1)
            fields.append((k, parse_operand(v)))
        return ('struct', m.group(1), tuple(fields))
    # Path::Variant(args) or Path::Variant  or unit struct
    mm = None
    if txt.endswith(')'):
        d = 0
        for i in range(len(txt) - 1, -1, -1):
            if txt[i] == ')':
                d += 1
            elif txt[i] == '(':
                d -= 1
                if d == 0:
                    mm = (txt[:i], txt[i + 1:-1])
                    break
    if mm:
        return ('variant', mm[0], tuple(parse_operand(x) for x in split_top(mm[1])))
    return ('variant', txt, ())


def parse_stmt(st):
    if st.startswith(_SKIP):
        return None
    md = re.match(r'^discriminant\((.*)\) = (\d+);$', st)
    if md:
        return ('setdiscr', parse_place(md.group(1)), int(md.group(2)))
    if st.startswith('Deinit('):
        return None
    if st.startswith('assume('):
        return ('assume', parse_operand(st[7:-2]))
    i = _find_assign(st)
    if i < 0:
        raise ValueError('stmt ' + st)
    return ('assign', parse_place(st[:i]), parse_rvalue(st[i + 3:-1]), st[:i].strip())


def _find_assign(st):
    d = 0
    for i, c in enumerate(st):
        if c in '([{':
            d += 1
        elif c in ')]}':
            d -= 1
        elif c == ' ' and d == 0 and st[i:i + 3] == ' = ':
            return i
    return -1


def _targets(txt):
    """`[return: bb2, unwind: bb38]` / `[success: bb9, unwind: bb30]` / `unwind continue`"""
    r = {}
    m = re.match(r'^\[(.*)\]$', txt.strip())
    if m:
        for kv in m.group(1).split(', '):
            if ': ' in kv:
                k, v = kv.split(': ', 1)
                r[k] = v
            else:
                r['unwind'] = kv.replace('unwind ', '')
    else:
        r['unwind'] = txt.strip().replace('unwind ', '')
    return r


def parse_term(term):
    if term == 'return;':
        return ('return',)
    if term == 'unreachable;':
        return ('unreachable',)
    if term in ('resume;', 'UnwindResume;') or term.startswith('unwind terminate') or term.startswith('terminate') or term.startswith('abort'):
        return ('resume',)
    m = re.match(r'^goto -> (bb\d+);$', term)
    if m:
        return ('goto', m.group(1))
    m = re.match(r'^switchInt\((.*)\) -> \[(.*)\];$', term)
    if m:
        tg = []
        for x in m.group(2).split(', '):
            v, b = x.split(': ')
            tg.append((None if v == 'otherwise' else int(v), b))
        return ('switch', parse_operand(m.group(1)), tuple(tg))
    m = re.match(r'^assert\((!?)(.*?), "(.*?)"(.*)\) -> (.*);$', term)
    if m:
        return ('assert', bool(m.group(1)), parse_operand(m.group(2)), m.group(3), _targets(m.group(5)))
    m = re.match(r'^drop\((.*)\) -> (.*);$', term)
    if m:
        return ('drop', parse_place(m.group(1)), _targets(m.group(2)))
    m = re.match(r'^falseEdge -> \[real: (bb\d+),.*\];$', term)
    if m:
        return ('goto', m.group(1))
    m = re.match(r'^falseUnwind -> \[real: (bb\d+),.*\];$', term)
    if m:
        return ('goto', m.group(1))
    # call:  DEST = CALLEE(ARGS) -> targets ;
    i = _find_assign(term)
    if i >= 0:
        dest = term[:i]
        rest = term[i + 3:]
        j = rest.rfind(' -> ')
        tgt = _targets(rest[j + 4:-1])
        callpart = rest[:j]
        # callee(args): find the matching '(' of the final ')'
        d = 0
        k = None
        for q in range(len(callpart) - 1, -1, -1):
            if callpart[q] == ')':
                d += 1
            elif callpart[q] == '(':
                d -= 1
                if d == 0:
                    k = q
                    break
        callee = callpart[:k]
        args = tuple(parse_operand(x) for x in split_top(callpart[k + 1:-1]))
        if callee.startswith('move ') or callee.startswith('copy '):
            callee = ('indirect', parse_operand(callee))
        else:
            if callee.startswith('const '):
                callee = callee[6:]
        return ('call', parse_place(dest), callee, args, tgt)
    raise ValueError('term ' + term)


def parsed_block(f, bb):
    p = f._parsed.get(bb)
    if p is None:
        stmts, term = f.blocks[bb]
        ps = []
        for st in stmts:
            try:
                x = parse_stmt(st)
            except Exception as ex:  # keep going; fail only if executed
                x = ('error', f'{ex!r} in {st}')
            if x is not None:
                ps.append(x)
        try:
            pt = parse_term(term)
        except Exception as ex:
            pt = ('error', f'{ex!r} in {term}')
        p = (ps, pt)
        f._parsed[bb] = p
    return p


if __name__ == '__main__':
    import sys
    fns = parse(sys.argv[1])
    bad = 0
    nb = 0
    for f in fns.values():
        for bb in f.blocks:
            ps, pt = parsed_block(f, bb)
            nb += 1
            for x in ps + [pt]:
                if x[0] == 'error':
                    bad += 1
                    if bad < 40:
                        print(f.short[:60], bb, x[1][:200])
    print(len(fns), 'bodies', nb, 'blocks', bad, 'unparsed')

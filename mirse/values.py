"""Run-time values of the symbolic interpreter."""
import z3

W = {'u8': 8, 'u16': 16, 'u32': 32, 'u64': 64, 'usize': 64, 'i8': 8, 'i16': 16, 'i32': 32, 'i64': 64, 'isize': 64,
     'u128': 128, 'i128': 128, 'char': 32}
STD_ENUMS = {'Option': ['None', 'Some'], 'Result': ['Ok', 'Err'], 'Poll': ['Ready', 'Pending'],
             'ControlFlow': ['Continue', 'Break'], 'Ordering': ['Less', 'Equal', 'Greater']}


def BV(n, w=64):
    return z3.BitVecVal(n, w)


class Ref:
    __slots__ = ('cell', 'path')

    def __init__(self, cell, path=()):
        self.cell = cell
        self.path = path

    def __repr__(self):
        return f"Ref({self.cell},{self.path})"


class Agg:
    """struct / tuple / array / closure environment"""
    __slots__ = ('ty', 'fields')

    def __init__(self, ty, fields):
        self.ty = ty
        self.fields = list(fields)

    def __repr__(self):
        return f"{self.ty}{self.fields}"

    def with_field(self, i, v):
        nf = list(self.fields)
        while len(nf) <= i:
            nf.append(None)
        nf[i] = v
        return Agg(self.ty, nf)


class Enum:
    __slots__ = ('ty', 'var', 'fields')

    def __init__(self, ty, var, fields=()):
        self.ty = ty
        self.var = var
        self.fields = list(fields)

    def __repr__(self):
        return f"{self.ty}::{self.var}{self.fields if self.fields else ''}"

    def with_field(self, i, v):
        nf = list(self.fields)
        while len(nf) <= i:
            nf.append(None)
        nf[i] = v
        return Enum(self.ty, self.var, nf)


class Opaque:
    """a value the engine does not interpret (strings, fmt::Arguments, error payloads ...)"""
    __slots__ = ('tag',)

    def __init__(self, tag):
        self.tag = tag

    def __repr__(self):
        return f"Opaque({self.tag})"


class FnPtr:
    __slots__ = ('name',)

    def __init__(self, name):
        self.name = name

    def __repr__(self):
        return f"FnPtr({self.name})"


class Coro:
    """state object of an `async fn` / async block after the coroutine transform"""
    __slots__ = ('fn', 'var', 'upvars', 'vf', 'ty')

    def __init__(self, fn, upvars):
        self.fn = fn
        self.var = 0
        self.upvars = list(upvars)
        self.vf = {}
        self.ty = 'Coro'

    def clone(self):
        c = Coro(self.fn, self.upvars)
        c.var = self.var
        c.vf = dict(self.vf)
        return c

    def __repr__(self):
        return f"Coro({self.fn.short[-40:]},state={self.var})"


UNIT = Agg('()', [])


def some(v):
    return Enum('Option', 1, [v])


NONE = Enum('Option', 0)


def ok(v):
    return Enum('Result', 0, [v])


def err(v):
    return Enum('Result', 1, [v])


def ready(v):
    return Enum('Poll', 0, [v])


PENDING = Enum('Poll', 1)


class Panic(Exception):
    pass


class Infeasible(Exception):
    pass


class Unsupported(Exception):
    pass


class Inconclusive(Exception):
    """unwinding bound hit / solver unknown: the run can be neither a pass nor a violation"""
    pass


class Deadlock(Exception):
    """a thread calls into a map while it holds one of that map's guards (DashMap would self-deadlock)"""
    pass


class DepthStop(Exception):
    """exploration frontier reached (used to split an exploration over processes)"""
    pass
